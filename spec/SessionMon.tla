---------------------------- MODULE SessionMon ----------------------------
(* Trace monitors for the session properties C16-C19, C22, C23 (DESIGN.md section 6).            *)
(* One trace line = one call on the real Session (Start, Send, SendBatch, Recv, Tick, Restart,   *)
(* Drop) with                                                                                     *)
(*   in    the inbound message as the driver composed it (true wire fields)                        *)
(*   out   every message the session wrote to its socket during the call, parsed from the bytes    *)
(*   delivered   what reached the application callback (after the application's usual enforce())  *)
(*   pre / post  the session's public sequence numbers, the persisted control record and the      *)
(*               stored messages (number, length, hash of the bytes) before / after the call      *)
(* Each property has its own clause set; the Reset line names the property being judged so that   *)
(* a check of C16 is never failed by a C19 clause.  Monitors speak only about the observable      *)
(* alphabet; readings adopted where the statements leave room are in DESIGN.md Appendix B.        *)
EXTENDS Common

Admin == {"0", "1", "2", "3", "4", "5", "A"}
IsNew(o) == ~o.possdup /\ ~(o.type = "4")            \* neither a retransmission nor a gap-fill / reset
IsApp(o) == o.type \notin Admin

EmptyFn == [x \in {} |-> 0]
MsInit(cfg) == [cfg |-> cfg,
                exp |-> 0,            \* C16: number the next new outbound message must carry (0 = not yet fixed)
                sent |-> EmptyFn,     \* seq -> [id, sending] of new application messages seen on the wire
                rr |-> FALSE,         \* C19: a ResendRequest has been seen on this connection
                logged |-> FALSE,     \* logon exchange completed
                lastSent |-> -1, lastRecv |-> -1, trPending |-> FALSE, trAt |-> -1,   \* C22
                psent |-> {}, deliv |-> {}, taint |-> {},                              \* C20 / C21
                sentBy |-> [a |-> {}, b |-> {}], delivAt |-> [a |-> {}, b |-> {}], maxFirst |-> [a |-> 0, b |-> 0],
                lastnr |-> [a |-> 1, b |-> 1], lastns |-> [a |-> 1, b |-> 1]]     \* C21: each side's numbers as last observed (Pair.Restart keeps them)

Prop(m) == m.cfg.prop

\* ---- helpers over the out list --------------------------------------------------------------------
RECURSIVE WalkNew(_, _, _)
\* walks the out list, returns [ok, exp, why]: every new message carries exp and advances it; a gap
\* fill's NewSeqNo moves exp forward (C18: "continue from the last NewSeqNo announced")
WalkNew(out, i, exp) ==
    IF i > Len(out) THEN [ok |-> TRUE, exp |-> exp, why |-> ""]
    ELSE LET o == out[i] IN
         IF o.possdup THEN WalkNew(out, i + 1, exp)
         ELSE IF o.type = "4" THEN WalkNew(out, i + 1, IF o.gapfill /\ o.newseq > exp THEN o.newseq ELSE exp)
         ELSE IF o.seq # exp THEN [ok |-> FALSE, exp |-> o.seq + 1, why |-> "new_message_seq"]
         ELSE WalkNew(out, i + 1, exp + 1)

StoredAt(st, q) == {i \in DOMAIN st.stored : st.stored[i].seq = q}
HasPersist(m) == m.cfg.persist # "none"

\* start number: configured, else recovered control record, else 1; ResetSeqNumFlag / reset option => 1
StartNo(m, e, ctrl) ==
    IF m.cfg.reset THEN 1
    ELSE IF e.cfg_send # 0 THEN e.cfg_send
    ELSE IF ctrl # <<>> THEN ctrl[1] ELSE 1

\* ---- C16 --------------------------------------------------------------------------------------------
C16Step(m, e) ==
    LET exp0 == IF e.e = "Start" /\ m.cfg.role = "ini" THEN StartNo(m, e, e.pre.ctrl)
                ELSE IF e.e = "Recv" /\ m.cfg.role = "acc" /\ ~m.logged /\ e.in # <<>> /\ e.in[1].type = "A"
                     THEN (IF e.in[1].reset THEN 1 ELSE StartNo(m, [cfg_send |-> m.cfg.cfg_send], e.pre.ctrl))
                ELSE m.exp
        \* calls made on a session that has already shut down are outside the statement (the design
        \* accepts no input then); numbering is re-based at the next Start
        w == IF exp0 = 0 \/ (e.pre.shutdown /\ e.e # "Start") THEN [ok |-> TRUE, exp |-> exp0, why |-> ""] ELSE WalkNew(e.out, 1, exp0)
        \* "after each send and after each processed inbound message": calls that sent something and
        \* inbound messages handed to a session that had not already shut down
        \* ... and send calls that moved the counter although nothing reached the wire (a batch whose flush failed has
        \* numbered and stored its earlier members): the record follows the counters, not the socket
        applies == /\ HasPersist(m) /\ ~e.pre.shutdown
                   /\ (e.e = "Recv" \/ (e.e \in {"Send", "SendBatch", "Start", "Tick"} /\ e.out # <<>>)
                                    \/ (e.e \in {"Send", "SendBatch"} /\ e.post.ns # e.pre.ns))
        ctrlok == ~applies \/ e.post.ctrl = <<e.post.ns, e.post.nr>>
    IN [ok |-> w.ok /\ ctrlok,
        why |-> IF ~w.ok THEN w.why ELSE "control_record",
        sig |-> IF ~w.ok THEN "seq:" \o e.e
                ELSE "ctrl:" \o e.e \o ":" \o
                     (IF e.post.ctrl = <<>> THEN "none"
                      ELSE IF e.post.ctrl[1] = e.post.ns + 1 /\ e.post.ctrl[2] = e.post.nr THEN "send_plus1"
                      ELSE IF e.post.ctrl[1] = e.post.ns /\ e.post.ctrl[2] + 1 = e.post.nr THEN "recv_minus1"
                      ELSE "other")
                     \o ":" \o (IF e.out = <<>> THEN "noout" ELSE e.out[Len(e.out)].type)
                     \o (IF e.post.shutdown THEN ":stopped" ELSE ""),
        m |-> [m EXCEPT !.exp = w.exp]]

\* ---- C17 --------------------------------------------------------------------------------------------
C17Step(m, e) ==
    LET bad == {i \in DOMAIN e.out :
                  LET o == e.out[i] IN
                  /\ IsNew(o)
                  /\ \/ IsApp(o) /\ ~\E j \in StoredAt(e.post, o.seq) :
                                        e.post.stored[j].h = o.h /\ e.post.stored[j].len = o.len
                     \* a new administrative message takes a fresh number: no record may exist under it (a record
                     \* left there by an earlier, failed send would be replayed in its place on a ResendRequest)
                     \/ ~IsApp(o) /\ StoredAt(e.post, o.seq) # {}}
        i0 == IF bad = {} THEN 0 ELSE CHOOSE i \in bad : \A j \in bad : i <= j
        o0 == e.out[i0]
    IN IF ~HasPersist(m) \/ bad = {} THEN [ok |-> TRUE, why |-> "", sig |-> "", m |-> m]
       ELSE [ok |-> FALSE,
             why |-> IF IsApp(o0) THEN "stored_copy_differs_from_wire" ELSE "admin_message_stored",
             sig |-> (IF ~IsApp(o0) THEN "admin_stored"
                      ELSE IF StoredAt(e.post, o0.seq) = {} THEN "app_not_stored"
                      ELSE IF \E j \in StoredAt(e.post, o0.seq) : e.post.stored[j].len = 0 THEN "app_stored_empty"
                      ELSE "app_stored_different")
                     \o ":" \o e.e \o (IF e.e = "SendBatch" /\ i0 = Len(e.out) THEN ":last_of_batch" ELSE ""),
             m |-> m]

\* ---- C18 --------------------------------------------------------------------------------------------
\* walks the answer to ResendRequest [B, E]: cursor c; S = stored numbers before the call
RECURSIVE WalkReplay(_, _, _, _, _, _)
WalkReplay(out, i, c, S, hi, m) ==
    IF i > Len(out) THEN [ok |-> TRUE, c |-> c, why |-> "", sig |-> ""]
    ELSE LET o == out[i] IN
         IF o.type = "4" /\ o.gapfill THEN
              IF o.seq # c THEN [ok |-> FALSE, c |-> c, why |-> "gapfill_msgseqnum_not_gap_start",
                                 sig |-> "gapfill_seq:" \o (IF i = Len(out) THEN "final" ELSE "intermediate")]
              ELSE IF o.newseq <= c THEN [ok |-> FALSE, c |-> c, why |-> "gapfill_newseqno", sig |-> "gapfill_newseq_not_ahead"]
              ELSE IF \E q \in S : q >= c /\ q < o.newseq /\ q <= hi
                   THEN [ok |-> FALSE, c |-> c, why |-> "gapfill_skips_stored_message", sig |-> "gapfill_skips_stored"]
              ELSE WalkReplay(out, i + 1, o.newseq, S, hi, m)
         ELSE IF o.possdup /\ IsApp(o) THEN
              IF o.seq # c \/ o.seq \notin S THEN [ok |-> FALSE, c |-> c, why |-> "replay_out_of_order_or_unknown",
                                                  sig |-> "replay_seq"]
              ELSE IF o.seq \in DOMAIN m.sent /\ (o.id # m.sent[o.seq].id \/ ~o.has_orig \/ o.orig # m.sent[o.seq].sending)
                   THEN [ok |-> FALSE, c |-> c, why |-> "replay_not_faithful",
                         sig |-> IF o.id # m.sent[o.seq].id THEN "replay_body" ELSE "replay_origsendingtime"]
              ELSE WalkReplay(out, i + 1, o.seq + 1, S, hi, m)
         ELSE [ok |-> FALSE, c |-> c, why |-> "unexpected_message_in_replay", sig |-> "replay_other:" \o o.type]

C18Step(m, e) ==
    LET rq == e.in[1]
        S == {e.pre.stored[i].seq : i \in DOMAIN e.pre.stored}
        \* a request numbered ahead of the expected number is answered all the same (the statement puts no condition on the
        \* request's own number); the session first asks for what it missed itself: one new ResendRequest in front of the answer
        ahead == rq.seq > e.pre.nr
        ownRR == ahead /\ e.out # <<>> /\ e.out[1].type = "2" /\ IsNew(e.out[1])
        lastSent == IF ownRR THEN e.pre.ns ELSE e.pre.ns - 1
        hi == IF rq.end = 0 THEN lastSent ELSE Min2(rq.end, lastSent)     \* numbers that must be covered
        w == WalkReplay(e.out, IF ownRR THEN 2 ELSE 1, rq.begin, S, hi, m)
        tail == e.out # <<>> /\ e.out[Len(e.out)].type = "4" /\ e.out[Len(e.out)].gapfill
    IN IF ~(e.e = "Recv" /\ e.in # <<>> /\ rq.type = "2" /\ rq.valid /\ rq.seq >= e.pre.nr /\ m.logged /\ ~e.pre.shutdown
            /\ (ahead => e.pre.st \in {1, 12})     \* ahead while another exchange is under way (logon, logout): C19 / C20
            /\ rq.begin >= 1 /\ (rq.end = 0 \/ rq.end >= rq.begin))
       THEN [ok |-> TRUE, why |-> "", sig |-> "", m |-> m]
       ELSE IF ~w.ok THEN [ok |-> FALSE, why |-> w.why, sig |-> w.sig \o (IF ahead THEN ":request_ahead" ELSE ""), m |-> m]
       ELSE IF w.c <= hi THEN [ok |-> FALSE, why |-> "range_not_covered", sig |-> "range_not_covered" \o (IF ahead THEN ":request_ahead" ELSE ""), m |-> m]
       ELSE IF tail /\ e.post.ns # e.out[Len(e.out)].newseq
            THEN [ok |-> FALSE, why |-> "next_send_not_last_newseqno", sig |-> "continue_after_gapfill", m |-> m]
       ELSE [ok |-> TRUE, why |-> "", sig |-> "", m |-> m]

\* ---- C19 --------------------------------------------------------------------------------------------
HasOut(e, t) == \E i \in DOMAIN e.out : e.out[i].type = t
C19Step(m, e) ==
    LET i == e.in[1]
        exp == e.pre.nr
        deliv == e.delivered # <<>>
        compbad == m.cfg.enforce /\ (i.sci # m.cfg.target \/ i.tci # m.cfg.sender)
        dupok == i.possdup /\ (~i.has_orig \/ i.orig <= i.sending)
        stateKind == IF e.pre.st = 1 THEN "continuous" ELSE IF e.pre.st = 12 THEN "resend_sent"
                     ELSE IF e.pre.st = 9 THEN "testreq_sent" ELSE "other"
    IN IF ~(e.e = "Recv" /\ e.in # <<>> /\ m.logged /\ ~e.pre.shutdown) THEN [ok |-> TRUE, why |-> "", sig |-> "", m |-> m]
       ELSE IF ~i.valid THEN
            \* never delivered; answered with a Reject unless it forces logout
            IF deliv THEN [ok |-> FALSE, why |-> "undecodable_delivered", sig |-> "undecodable_delivered", m |-> m]
            ELSE IF ~HasOut(e, "3") /\ ~HasOut(e, "5") /\ ~e.post.shutdown
                 THEN [ok |-> FALSE, why |-> "undecodable_not_rejected", sig |-> "undecodable_no_reject:" \o i.why, m |-> m]
            ELSE [ok |-> TRUE, why |-> "", sig |-> "", m |-> m]
       ELSE IF i.type \in Admin THEN [ok |-> TRUE, why |-> "", sig |-> "", m |-> m]      \* delivery rules are about application messages
       ELSE IF compbad THEN
            IF deliv \/ ~HasOut(e, "5") \/ ~e.post.shutdown
            THEN [ok |-> FALSE, why |-> "bad_compid_not_logged_out",
                  sig |-> "compid:" \o (IF deliv THEN "delivered" ELSE IF ~HasOut(e, "5") THEN "no_logout" ELSE "not_ended") \o ":" \o stateKind, m |-> m]
            ELSE [ok |-> TRUE, why |-> "", sig |-> "", m |-> m]
       ELSE IF i.seq = exp THEN
            IF ~deliv THEN [ok |-> FALSE, why |-> "in_sequence_not_delivered", sig |-> "inseq_not_delivered:" \o stateKind, m |-> m]
            ELSE [ok |-> TRUE, why |-> "", sig |-> "", m |-> m]
       ELSE IF i.seq > exp THEN
            IF deliv THEN [ok |-> FALSE, why |-> "too_high_delivered", sig |-> "high_delivered:" \o stateKind, m |-> m]
            ELSE IF ~(\E k \in DOMAIN e.out : e.out[k].type = "2" /\ e.out[k].begin = exp) /\ ~m.rr
                 THEN [ok |-> FALSE, why |-> "too_high_no_resend_request", sig |-> "high_no_resend:" \o stateKind, m |-> m]
            ELSE [ok |-> TRUE, why |-> "", sig |-> "", m |-> m]
       ELSE \* lower than expected
            IF dupok THEN [ok |-> TRUE, why |-> "", sig |-> "", m |-> m]        \* may be delivered (re-delivery)
            ELSE IF deliv \/ ~HasOut(e, "5") \/ ~e.post.shutdown
                 THEN [ok |-> FALSE, why |-> "too_low_not_logged_out",
                       sig |-> "low:" \o (IF deliv THEN "delivered" ELSE IF ~HasOut(e, "5") THEN "no_logout" ELSE "not_ended") \o ":" \o stateKind, m |-> m]
            ELSE [ok |-> TRUE, why |-> "", sig |-> "", m |-> m]

\* ---- C23 (logon acceptance; SessionID comparisons) --------------------------------------------------
C23Step(m, e) ==
    IF e.e = "SidCmp" THEN
        LET eq == e.s1 = e.s2 /\ e.t1 = e.t2 IN
        IF e.eq # eq \/ e.ne # ~eq \/ ~e.eq_self \/ e.ne_self
        THEN [ok |-> FALSE, why |-> "session_id_comparison",
              sig |-> "sidcmp:" \o (IF e.eq # eq THEN "eq" ELSE IF e.ne # ~eq THEN "ne" ELSE "self")
                      \o ":" \o (IF e.s1 = e.s2 THEN "same_sender" ELSE "diff_sender") \o ":" \o (IF e.t1 = e.t2 THEN "same_target" ELSE "diff_target"),
              m |-> m]
        ELSE [ok |-> TRUE, why |-> "", sig |-> "", m |-> m]
    ELSE IF e.e = "Recv" /\ e.in # <<>> /\ e.in[1].type = "A" /\ e.in[1].valid /\ ~m.logged /\ ~e.pre.shutdown THEN
        LET i == e.in[1]
            completed == e.post.st = 1 /\ ~e.post.shutdown
            logons == {k \in DOMAIN e.out : e.out[k].type = "A"}
        IN IF m.cfg.role = "acc" THEN
              LET targetok == ~m.cfg.enforce \/ i.tci = m.cfg.sender
                  listed == m.cfg.clients = <<>> \/ \E k \in DOMAIN m.cfg.clients : m.cfg.clients[k] = i.sci
              IN IF completed /\ ~(targetok /\ listed)
                 THEN [ok |-> FALSE, why |-> "logon_accepted_wrongly",
                       sig |-> "acc_accept:" \o (IF ~targetok THEN "target" ELSE "client_list"), m |-> m]
                 ELSE IF completed /\ logons = {}
                 THEN [ok |-> FALSE, why |-> "no_logon_response", sig |-> "acc_no_response", m |-> m]
                 ELSE IF completed /\ \E k \in logons : e.out[k].hbint # i.hbint
                 THEN [ok |-> FALSE, why |-> "logon_response_heartbtint", sig |-> "acc_hbint", m |-> m]
                 ELSE IF completed /\ i.reset /\ ~(\E k \in logons : e.out[k].seq = 1)
                 THEN [ok |-> FALSE, why |-> "reset_not_to_one", sig |-> "acc_reset_send", m |-> m]
                 ELSE IF completed /\ i.reset /\ i.seq = 1 /\ e.post.nr # 2
                 THEN [ok |-> FALSE, why |-> "reset_not_to_one", sig |-> "acc_reset_recv", m |-> m]
                 ELSE [ok |-> TRUE, why |-> "", sig |-> "", m |-> m]
           ELSE \* initiator: response must mirror its identity
              LET mirror == i.sci = m.cfg.target /\ i.tci = m.cfg.sender IN
              IF m.cfg.enforce /\ ~mirror /\ completed
              THEN [ok |-> FALSE, why |-> "mismatched_logon_response_accepted",
                    sig |-> "ini_mismatch:" \o (IF i.sci # m.cfg.target /\ i.tci # m.cfg.sender THEN "both"
                                                ELSE IF i.sci # m.cfg.target THEN "sender_only" ELSE "target_only"), m |-> m]
              ELSE [ok |-> TRUE, why |-> "", sig |-> "", m |-> m]
    ELSE [ok |-> TRUE, why |-> "", sig |-> "", m |-> m]

\* ---- C22 (heartbeat / test request supervision on a whole-second grid) ------------------------------
\* lastSent / lastRecv: virtual second of the last transmission / reception as the monitor saw them.
C22Step(m, e) ==
    LET H == m.cfg.hb
        grace == H + H \div 5
        now == e.now
    IN IF e.e = "Tick" /\ m.logged /\ ~e.pre.shutdown THEN
          LET idle == now - m.lastSent >= H
              silent == now - m.lastRecv > grace
              hb == \E k \in DOMAIN e.out : e.out[k].type = "0"
              tr == \E k \in DOMAIN e.out : e.out[k].type = "1"
              lo == \E k \in DOMAIN e.out : e.out[k].type = "5"
          IN IF idle /\ ~hb /\ ~lo THEN [ok |-> FALSE, why |-> "no_heartbeat_when_idle", sig |-> "tick:no_heartbeat", m |-> m]
             ELSE IF ~m.trPending /\ silent /\ ~tr THEN [ok |-> FALSE, why |-> "no_test_request_after_silence", sig |-> "tick:no_testreq", m |-> m]
             ELSE IF ~m.trPending /\ ~silent /\ tr THEN [ok |-> FALSE, why |-> "test_request_too_early", sig |-> "tick:early_testreq", m |-> m]
             ELSE IF m.trPending /\ lo /\ ~(now - m.trAt > grace)
                  THEN [ok |-> FALSE, why |-> "logout_before_second_period", sig |-> "tick:early_logout:" \o (IF now - m.trAt <= 1 THEN "next_tick" ELSE "later"), m |-> m]
             ELSE IF m.trPending /\ now - m.trAt > grace /\ now - m.lastRecv > grace /\ ~lo
                  THEN [ok |-> FALSE, why |-> "no_logout_after_second_silence", sig |-> "tick:no_logout", m |-> m]
             ELSE IF ~m.trPending /\ lo THEN [ok |-> FALSE, why |-> "logout_without_test_request", sig |-> "tick:logout_no_testreq", m |-> m]
             ELSE [ok |-> TRUE, why |-> "", sig |-> "", m |-> m]
       ELSE IF e.e = "Recv" /\ e.in # <<>> /\ e.in[1].valid /\ e.in[1].type = "1" /\ m.logged /\ e.in[1].seq = e.pre.nr /\ ~e.pre.shutdown THEN
          IF ~\E k \in DOMAIN e.out : e.out[k].type = "0" /\ e.out[k].testreqid = e.in[1].testreqid
          THEN [ok |-> FALSE, why |-> "test_request_not_echoed", sig |-> "recv:testreq_echo", m |-> m]
          ELSE [ok |-> TRUE, why |-> "", sig |-> "", m |-> m]
       ELSE IF e.e = "Recv" /\ e.in # <<>> /\ e.in[1].valid /\ e.in[1].type = "0" /\ m.trPending /\ e.in[1].seq = e.pre.nr /\ ~e.pre.shutdown THEN
          IF e.post.st # 1 THEN [ok |-> FALSE, why |-> "heartbeat_did_not_clear_test_request", sig |-> "recv:hb_clears", m |-> m]
          ELSE [ok |-> TRUE, why |-> "", sig |-> "", m |-> m]
       ELSE [ok |-> TRUE, why |-> "", sig |-> "", m |-> m]

\* ---- C20 (gap recovery with a conformant counterparty) ------------------------------------------------
\* The driver is the counterparty: "PeerSent" lines record every message it sent (also those lost while
\* disconnected), "End" closes a history after the counterparty has answered every ResendRequest.
\* Locally recognisable deviation events *taint* the execution; the taint appears in the signature of a
\* rejection so that a known finding is matched only through the defect it names.
Code == INSTANCE CodeRx

SS == INSTANCE SessionStates
\* ---- conformance of every recorded call with the session state machine (SessionStates.tla): a label, never a verdict ----
RoleOf(m, e) == IF Get(m.cfg, "role", "ini") = "pair" THEN (IF Get(e, "w", "a") = "a" THEN "ini" ELSE "acc") ELSE Get(m.cfg, "role", "ini")
MeOf(m, e) == IF Get(m.cfg, "role", "ini") = "pair" THEN (IF Get(e, "w", "a") = "a" THEN <<"INI", "ACC">> ELSE <<"ACC", "INI">>)
              ELSE <<Get(m.cfg, "sender", ""), Get(m.cfg, "target", "")>>
AbstractRecv(m, e) ==
    LET i == e.in[1]
        role == RoleOf(m, e)
        kind == IF ~i.valid THEN "bad" ELSE IF i.type \in {"A", "0", "1", "2", "3", "4", "5"} THEN i.type ELSE "app"
        ref == IF kind = "4" THEN i.newseq ELSE i.seq
        rel == IF ref > e.pre.nr THEN (IF kind = "4" THEN "eq" ELSE "hi") ELSE IF ref < e.pre.nr THEN "lo" ELSE "eq"
        clients == Get(m.cfg, "clients", <<>>)
    IN [op |-> "Recv", role |-> role, kind |-> kind, seqrel |-> rel, dup |-> i.possdup,
        ids |-> IF kind = "A" /\ role = "acc" THEN i.tci = MeOf(m, e)[1] ELSE (i.sci = MeOf(m, e)[2] /\ i.tci = MeOf(m, e)[1]),
        late |-> i.has_orig /\ i.orig > i.sending,
        persist |-> Get(m.cfg, "persist", "none") # "none", ignoreGap |-> Get(m.cfg, "ignore_logon_gap", FALSE),
        enforce |-> Get(m.cfg, "enforce", TRUE),
        extra |-> IF kind = "2" /\ (i.begin = 0 \/ (i.end # 0 /\ i.begin > i.end)) THEN "badrange"
                  ELSE IF kind = "A" /\ role = "acc" /\ clients # <<>> /\ ~\E k \in DOMAIN clients : clients[k] = i.sci THEN "refused"
                  ELSE ""]
StateNext(m, e) ==
    LET s == e.pre.st IN
    CASE e.e \in {"Start", "Reconnect"} -> SS!Next(s, [op |-> "Start", role |-> RoleOf(m, e)])
      [] e.e = "Restart" -> SS!Next(s, [op |-> "Restart"])
      [] e.e \in {"Send", "SendBatch", "SendAdmin", "SendPar"} -> SS!Next(s, [op |-> "Send"])
      [] e.e \in {"Drop", "PeerClose"} -> SS!Next(s, [op |-> "Drop"])
      \* whether the silence limit has passed is the supervision clause's business (C22): both cases are admitted here
      [] e.e = "Tick" -> IF e.pre.shutdown THEN {s} ELSE SS!Next(s, [op |-> "Tick", silent |-> TRUE]) \cup SS!Next(s, [op |-> "Tick", silent |-> FALSE])
      [] e.e = "Recv" /\ e.in # <<>> -> SS!Next(s, AbstractRecv(m, e))
      [] OTHER -> SS!States
StateLabel(m, e) ==
    IF ~(Has(e, "pre") /\ Has(e, "post") /\ Has(e.pre, "st") /\ Has(e.post, "st")) THEN ""
    ELSE IF e.post.st \in StateNext(m, e) THEN "state_machine:step_conforms"
    ELSE "state_machine:unexplained:" \o e.e \o ":" \o (IF e.e = "Recv" /\ e.in # <<>> THEN AbstractRecv(m, e).kind \o ":" \o AbstractRecv(m, e).seqrel ELSE "")
         \o ":" \o ToString(e.pre.st) \o "->" \o ToString(e.post.st)
\* is this recorded receive step what the code model (ideal receive design + recorded findings) predicts?
StepExplained(e, acceptor, ignoreGap) ==
    IF ~(e.e = "Recv" /\ e.in # <<>> /\ e.in[1].valid /\ ~e.pre.shutdown) THEN TRUE
    ELSE LET i == e.in[1]
             kind == IF i.type = "A" THEN "logon" ELSE IF i.type = "4" THEN "gap" ELSE IF i.type = "5" THEN "logout"
                     ELSE IF i.type \in Admin THEN "adm" ELSE "app"
             \* an acceptor recovers its numbers from the control record while it handles the Logon
             nr0 == IF acceptor /\ kind = "logon" THEN (IF e.pre.ctrl # <<>> THEN e.pre.ctrl[2] ELSE 1) ELSE e.pre.nr
             y == Code!Step([nr |-> nr0, cont |-> e.pre.st = 1, est |-> e.pre.st \notin {0, 3, 4, 5}, ignoreLogonGap |-> ignoreGap], [seq |-> i.seq, kind |-> kind, dup |-> i.possdup, newseq |-> i.newseq])
             sentRR == \E k \in DOMAIN e.out : e.out[k].type = "2"
         IN /\ y.dead = e.post.shutdown
            /\ (~y.dead => e.post.nr = y.nr)
            /\ (y.deliver <=> e.delivered # <<>>)
            /\ (~y.dead => (y.rr <=> sentRR))
            \* the request the code sends asks for everything from the expected number on
            /\ (sentRR => \A k \in DOMAIN e.out : e.out[k].type = "2" => (e.out[k].begin = nr0 /\ e.out[k].end = 0))

DevLabels == <<"incr_on_out_of_seq", "logon_gap_terminated", "high_outside_continuous_terminated", "seqreset_below_expected_terminated", "UNEXPLAINED_STEP">>
LabelsOf(e) ==
    IF ~(e.e = "Recv" /\ e.in # <<>> /\ e.in[1].valid /\ ~e.pre.shutdown) THEN {}
    ELSE LET i == e.in[1] IN
         (IF i.type # "4" /\ i.seq # e.pre.nr /\ e.post.nr = e.pre.nr + 1 THEN {"incr_on_out_of_seq"} ELSE {})
         \cup (IF i.type = "A" /\ i.seq > e.pre.nr /\ e.post.shutdown THEN {"logon_gap_terminated"} ELSE {})
         \cup (IF i.type \notin {"A", "4"} /\ i.seq > e.pre.nr /\ e.pre.st # 1 /\ e.post.shutdown
               THEN {"high_outside_continuous_terminated"} ELSE {})
         \cup (IF i.type = "4" /\ i.newseq < e.pre.nr /\ e.post.shutdown THEN {"seqreset_below_expected_terminated"} ELSE {})
RECURSIVE JoinLabels(_, _)
JoinLabels(S, i) == IF i > Len(DevLabels) THEN ""
                    ELSE (IF DevLabels[i] \in S THEN "+" \o DevLabels[i] ELSE "") \o JoinLabels(S, i + 1)
TaintSig(S) == IF S = {} THEN "clean" ELSE JoinLabels(S, 1)

C20Step(m, e) ==
    IF e.e = "PeerSent" THEN
        [ok |-> TRUE, why |-> "", sig |-> "", m |-> IF e.kind = "app" THEN [m EXCEPT !.psent = @ \cup {e.id}] ELSE m]
    ELSE IF e.e = "End" THEN
        LET missing == m.psent \ m.deliv IN
        IF e.alive /\ missing # {} THEN [ok |-> FALSE, why |-> "application_message_never_delivered",
                                         sig |-> "not_all_delivered:after:" \o TaintSig(m.taint), m |-> m]
        ELSE IF e.alive /\ e.nr # e.peer_next THEN [ok |-> FALSE, why |-> "expected_number_differs_from_counterparty_next",
                                                   sig |-> "expected_mismatch:after:" \o TaintSig(m.taint), m |-> m]
        ELSE [ok |-> TRUE, why |-> "", sig |-> "", m |-> m]
    ELSE IF ~Has(e, "post") THEN [ok |-> TRUE, why |-> "", sig |-> "", m |-> m]
    ELSE LET t2 == m.taint \cup LabelsOf(e) \cup (IF StepExplained(e, FALSE, Get(m.cfg, "ignore_logon_gap", FALSE)) THEN {} ELSE {"UNEXPLAINED_STEP"})
             m2 == [m EXCEPT !.taint = t2, !.deliv = @ \cup {e.delivered[k].id : k \in DOMAIN e.delivered}]
         IN IF e.post.shutdown /\ ~e.pre.shutdown /\ e.e \in {"Recv", "Start"}
            THEN [ok |-> FALSE, why |-> "session_terminated_with_conformant_counterparty",
                  sig |-> "terminated:after:" \o TaintSig(t2), m |-> m2]
            ELSE [ok |-> TRUE, why |-> "", sig |-> "", m |-> m2]

\* ---- C21 (two fix8 sessions, the driver is the network) -------------------------------------------------
\* Events carry w \in {"a", "b"} (which session made the call).  Application ids grow in send order per sender.
RECURSIVE WalkDeliv(_, _, _, _)
\* d = delivered list of one Recv; have = ids already delivered at this side; mx = largest first-delivered id
WalkDeliv(d, i, have, mx) ==
    IF i > Len(d) THEN [ok |-> TRUE, why |-> "", have |-> have, mx |-> mx]
    ELSE LET x == d[i] IN
         IF x.id \in have THEN
              IF ~x.possdup THEN [ok |-> FALSE, why |-> "redelivery_not_flagged_possdup", have |-> have, mx |-> mx]
              ELSE WalkDeliv(d, i + 1, have, mx)
         ELSE IF x.id < mx THEN [ok |-> FALSE, why |-> "first_delivery_out_of_send_order", have |-> have \cup {x.id}, mx |-> mx]
         ELSE WalkDeliv(d, i + 1, have \cup {x.id}, x.id)

C21Step(m, e) ==
    IF e.e = "End" THEN
        LET missA == m.sentBy.a \ m.delivAt.b
            missB == m.sentBy.b \ m.delivAt.a
        IN IF e.alive /\ (missA # {} \/ missB # {})
           THEN [ok |-> FALSE, why |-> "application_message_never_delivered",
                 sig |-> "not_all_delivered:" \o (IF missA # {} THEN "a_to_b" ELSE "b_to_a") \o ":after:" \o TaintSig(m.taint), m |-> m]
           ELSE [ok |-> TRUE, why |-> "", sig |-> "", m |-> m]
    ELSE IF ~Has(e, "post") THEN [ok |-> TRUE, why |-> "", sig |-> "", m |-> m]
    ELSE LET w == e.w
             \* a Logon above the expected number is the recorded finding only if it is above the number this side really
             \* had before the drop/restart (an acceptor shows its recovered number only after the Logon: pre.nr is 1)
             lab == LabelsOf(e) \ (IF e.e = "Recv" /\ e.in # <<>> /\ e.in[1].type = "A" /\ e.in[1].seq <= m.lastnr[w]
                                    THEN {"logon_gap_terminated"} ELSE {})
             t2 == m.taint \cup lab \cup (IF StepExplained(e, w = "b", FALSE) THEN {} ELSE {"UNEXPLAINED_STEP"})
             newsent == {e.out[k].id : k \in {j \in DOMAIN e.out : IsNew(e.out[j]) /\ IsApp(e.out[j])}}
             news == SelectSeq(e.out, LAMBDA o : IsNew(o))
             wd == WalkDeliv(e.delivered, 1, m.delivAt[w], m.maxFirst[w])
             m2 == [m EXCEPT !.taint = t2, !.sentBy[w] = @ \cup newsent, !.delivAt[w] = wd.have, !.maxFirst[w] = wd.mx,
                             !.lastnr[w] = IF e.e = "Recv" /\ ~e.pre.shutdown THEN e.post.nr ELSE @,
                             !.lastns[w] = IF news # <<>> THEN news[Len(news)].seq + 1 ELSE @]
         IN IF ~wd.ok THEN [ok |-> FALSE, why |-> wd.why, sig |-> wd.why \o ":after:" \o TaintSig(t2), m |-> m2]
            \* Pair.Restart / Reconnect: numbering continues where this side stopped, whatever process or object sends
            ELSE IF news # <<>> /\ news[1].seq # m.lastns[w]
            THEN [ok |-> FALSE, why |-> "numbering_not_continued_after_reconnect_or_restart",
                  sig |-> "numbering_not_continued:" \o w \o ":" \o e.e \o ":after:" \o TaintSig(t2), m |-> m2]
            ELSE IF e.post.shutdown /\ ~e.pre.shutdown /\ e.e \in {"Recv", "Start"}
            THEN [ok |-> FALSE, why |-> "session_terminated_by_its_peer_session",
                  sig |-> "terminated:" \o w \o ":after:" \o TaintSig(t2), m |-> m2]
            ELSE [ok |-> TRUE, why |-> "", sig |-> "", m |-> m2]

\* ---- C25 (concurrent senders) ----------------------------------------------------------------------------
\* SendPar{threads, per}: `threads` application threads each sent `per` messages (ids t*1000+k) through one
\* session at the same time; out = everything read from the socket, in wire order.
C25Step(m, e) ==
    IF e.e # "SendPar" THEN [ok |-> TRUE, why |-> "", sig |-> "", m |-> m]
    ELSE LET news == SelectSeq(e.out, LAMBDA o : IsNew(o))
             want == {t * 1000 + k : t \in 1..e.threads, k \in 1..e.per}
             \* consecutive from the first new message of the call (in the pipelined model the counter is advanced
             \* by the writer thread, so the number observed before the call is not a reliable base)
             seqbad == {i \in DOMAIN news : news[i].seq # news[1].seq + i - 1}
             apps == SelectSeq(news, LAMBDA o : IsApp(o))
             ids == {apps[i].id : i \in DOMAIN apps}
             dup == \E i, j \in DOMAIN apps : i < j /\ apps[i].id = apps[j].id
             storebad == {i \in DOMAIN news : IsApp(news[i]) /\ ~\E j \in StoredAt(e.post, news[i].seq) :
                                                   e.post.stored[j].h = news[i].h /\ e.post.stored[j].len = news[i].len}
         IN IF seqbad # {} THEN [ok |-> FALSE, why |-> "sequence_numbers_not_unique_consecutive",
                                 sig |-> "seq:" \o e.pmodel \o (IF \E i, j \in DOMAIN news : i < j /\ news[i].seq = news[j].seq
                                                                THEN ":duplicate_number" ELSE ":gap_or_order"), m |-> m]
            ELSE IF dup THEN [ok |-> FALSE, why |-> "message_transmitted_twice", sig |-> "twice:" \o e.pmodel, m |-> m]
            ELSE IF ids # want \/ Len(apps) # Cardinality(want)
                 THEN [ok |-> FALSE, why |-> "message_not_transmitted", sig |-> "missing:" \o e.pmodel, m |-> m]
            ELSE IF HasPersist(m) /\ storebad # {}
                 THEN [ok |-> FALSE, why |-> "stored_copy_is_not_the_transmitted_message", sig |-> "store:" \o e.pmodel, m |-> m]
            ELSE IF news # <<>> /\ e.post.ns # news[Len(news)].seq + 1
                 THEN [ok |-> FALSE, why |-> "next_send_number_lost_updates", sig |-> "counter:" \o e.pmodel, m |-> m]
            ELSE [ok |-> TRUE, why |-> "", sig |-> "", m |-> m]

\* ---- C15 (the socket reader frames the byte stream) -----------------------------------------------------
\* Frames{sent, firstbad, kind, delivered, st}: the counterparty wrote the messages `sent` (length and hash of each)
\* in some chunking; message number firstbad (0 = none) has a corrupt preamble of the given kind; `delivered` is
\* what the real reader thread handed to the session, st the session state afterwards.
C15Step(m, e) ==
    IF e.e # "Frames" THEN [ok |-> TRUE, why |-> "", sig |-> "", m |-> m]
    ELSE LET want == IF e.firstbad = 0 THEN e.sent ELSE SubSeq(e.sent, 1, e.firstbad - 1)
             n == Len(e.delivered)
             samePrefix == \A i \in 1..Min2(n, Len(want)) : e.delivered[i] = want[i]
         IN IF ~samePrefix THEN [ok |-> FALSE, why |-> "delivered_message_differs_from_sent",
                                 sig |-> "differs:" \o (IF e.firstbad = 0 THEN "valid_stream" ELSE e.kind), m |-> m]
            ELSE IF n < Len(want) THEN [ok |-> FALSE, why |-> "valid_message_not_delivered",
                                        sig |-> "missing:" \o (IF e.firstbad = 0 THEN "valid_stream" ELSE e.kind), m |-> m]
            ELSE IF n > Len(want) THEN [ok |-> FALSE, why |-> "message_handed_on_after_corrupt_preamble",
                                        sig |-> "handed_on:" \o e.kind, m |-> m]
            ELSE IF e.firstbad # 0 /\ e.st # 2 THEN [ok |-> FALSE, why |-> "reader_did_not_stop_on_corrupt_preamble",
                                                     sig |-> "not_stopped:" \o e.kind, m |-> m]
            ELSE IF e.firstbad = 0 /\ e.st = 2 THEN [ok |-> FALSE, why |-> "reader_stopped_on_valid_stream",
                                                     sig |-> "stopped:valid_stream", m |-> m]
            ELSE [ok |-> TRUE, why |-> "", sig |-> "", m |-> m]

\* ---- bookkeeping common to all properties ---------------------------------------------------------
RECURSIVE AddSent(_, _, _)
AddSent(sent, out, i) ==
    IF i > Len(out) THEN sent
    ELSE LET o == out[i] IN
         AddSent(IF IsNew(o) /\ IsApp(o) THEN (o.seq :> [id |-> o.id, sending |-> o.sending]) @@ sent ELSE sent, out, i + 1)

Book(m, e) ==
    IF ~Has(e, "out") THEN m
    ELSE LET gotRR == \E k \in DOMAIN e.out : e.out[k].type = "2"
             sentTR == \E k \in DOMAIN e.out : e.out[k].type = "1"
             logonDone == \/ m.logged
                          \/ e.e = "Recv" /\ e.in # <<>> /\ e.in[1].type = "A" /\ e.post.st = 1
             recvValid == e.e = "Recv" /\ e.in # <<>>
         IN [m EXCEPT !.sent = AddSent(m.sent, e.out, 1),
                      !.rr = IF e.e \in {"Start", "Restart"} THEN FALSE ELSE (m.rr \/ gotRR),
                      !.logged = IF e.e \in {"Restart", "Drop"} THEN FALSE ELSE logonDone,
                      !.lastSent = IF e.out # <<>> THEN e.now ELSE m.lastSent,
                      !.lastRecv = IF recvValid THEN e.now ELSE m.lastRecv,
                      \* only an inbound Heartbeat answers a pending TestRequest (the statement's wording)
                      !.trPending = IF sentTR THEN TRUE
                                    ELSE IF recvValid /\ e.in[1].valid /\ e.in[1].type = "0" THEN FALSE ELSE m.trPending,
                      !.trAt = IF sentTR THEN e.now ELSE m.trAt]

MonStep(m, e) ==
    IF e.e = "Reset" THEN [ok |-> TRUE, why |-> "", sig |-> "", m |-> MsInit(e.cfg)]
    ELSE IF e.e = "New" THEN [ok |-> TRUE, why |-> "", sig |-> "", m |-> m]
    ELSE LET r == CASE Prop(m) = "C15" -> C15Step(m, e)
                    [] Prop(m) = "C16" -> C16Step(m, e)
                    [] Prop(m) = "C17" -> C17Step(m, e)
                    [] Prop(m) = "C18" -> C18Step(m, e)
                    [] Prop(m) = "C19" -> C19Step(m, e)
                    [] Prop(m) = "C20" -> C20Step(m, e)
                    [] Prop(m) = "C21" -> C21Step(m, e)
                    [] Prop(m) = "C25" -> C25Step(m, e)
                    [] Prop(m) = "C22" -> C22Step(m, e)
                    [] Prop(m) = "C23" -> C23Step(m, e)
                    [] Prop(m) = "none" -> [ok |-> TRUE, why |-> "", sig |-> "", m |-> m]
                    \* a property without a monitor must never look like a pass
                    [] OTHER -> [ok |-> FALSE, why |-> "no_monitor_for_property", sig |-> "no_monitor", m |-> m]
         IN [ok |-> r.ok, why |-> r.why, sig |-> r.sig, m |-> Book(r.m, e)]
=============================================================================
