CONSTANTS
  D = 6
  Offs <- OffsZero
  Dev = {"weekly_equal_days_never"}
INIT MCInit
NEXT MCNext
INVARIANT Follows
CHECK_DEADLOCK FALSE
