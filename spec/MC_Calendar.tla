----------------------------- MODULE MC_Calendar -----------------------------
(* Model checking of Calendar.tla.                                                                  *)
(*   Family "walk": the day-stepping calendar from 1970-01-01 to 2099-12-31 (47 482 states); on every *)
(*                  day the closed forms must agree with the walk and the time_to_epoch transcription *)
(*                  must return the day's instants (start and end of day; first of month for         *)
(*                  MonthYear).  Each day is exported (LEAF) so that the driver builds its parse     *)
(*                  texts from the civil dates of this machine.                                      *)
(*   Family "log":  the seconds field of the log renderer for instants around every rounding         *)
(*                  boundary, precisions 0..9.                                                       *)
EXTENDS Calendar, Json

CONSTANTS Dev, Family

VARIABLE st

LogSods == {0, 58, 59, 3599, 86399}
LogNs == {0, 1, 499999999, 500000000, 500000001, 999400000, 999499999, 999500000, 999999499, 999999500, 999999999,
          400000, 49999999, 50000000, 949999999, 950000000, 994999999, 995000000}

Init ==
    CASE Family = "walk" -> st = [kind |-> "day", c |-> Epoch]
      [] Family = "log" -> \E sod \in LogSods : \E ns \in LogNs : \E dp \in 0..9 : \E day \in {0, 59, 11016, 24855, 47481} :
                              st = [kind |-> "log", day |-> day, sod |-> sod, ns |-> ns, dp |-> dp,
                                    text |-> LogAsCode(Dev, day, sod, ns, dp)]

Next ==
    IF st.kind = "day" /\ ~(st.c.y = 2099 /\ st.c.m = 12 /\ st.c.d = 31) THEN st' = [st EXCEPT !.c = Tomorrow(st.c)]
    ELSE UNCHANGED st

\* the closed forms are the walk
ClosedForms == st.kind = "day" =>
    /\ CivilOf(st.c.day) = [y |-> st.c.y, m |-> st.c.m, d |-> st.c.d]
    /\ DayNumber(st.c.y, st.c.m, st.c.d) = st.c.day
    /\ ValidDate(st.c.y, st.c.m, st.c.d)
    /\ WeekdayOf(st.c.day) = st.c.wd
\* time_to_epoch returns the instant of the broken-down time, for the first and the last second of the
\* day and for the first of the month (MonthYear), on every day
EpochCorrect == st.kind = "day" =>
    /\ TimeToEpoch(Dev, st.c.y - 1900, st.c.m - 1, st.c.d, 0, 0, 0) = [day |-> st.c.day, sod |-> 0]
    /\ TimeToEpoch(Dev, st.c.y - 1900, st.c.m - 1, st.c.d, 23, 59, 59) = [day |-> st.c.day, sod |-> 86399]
    /\ TimeToEpoch(Dev, st.c.y - 1900, st.c.m - 1, 1, 0, 0, 0) = [day |-> FirstOfMonth(st.c.day), sod |-> 0]
\* the walk ends where it should: 2099-12-31 is day 47481, a Thursday
EndOfWalk == (st.kind = "day" /\ st.c.y = 2099 /\ st.c.m = 12 /\ st.c.d = 31) => (st.c.day = 47481 /\ st.c.wd = 4)
\* log time stamps show the instant's calendar fields with seconds in 00..59
LogOk == st.kind = "log" => LogAccepted(st.day, st.sod, st.ns, st.dp, st.text)
\* vacuity guards (must be violated)
NeverLeapDay == ~(st.kind = "day" /\ st.c.m = 2 /\ st.c.d = 29 /\ st.c.y = 2000)
NeverCarries == ~(st.kind = "log" /\ st.dp > 0 /\ RoundsUp(st.ns, st.dp) /\ st.ns \div Ten(9 - st.dp) + 1 = Ten(st.dp))

Export == (st.kind = "day") =>
    PrintT("LEAF " \o ToJson([day |-> st.c.day, y |-> st.c.y, m |-> st.c.m, d |-> st.c.d]))
=============================================================================
