------------------------------ MODULE Rotation ------------------------------
(* Generation rotation of log files and file stores, property C29:                                 *)
(*   FileLogger::rotate (runtime/logger.cpp)  and  FilePersister::initialise(purge) with a        *)
(*   rotation count (runtime/filepersist.cpp).                                                    *)
(* A directory is a function  name -> content id.  Names that take part in a rotation are          *)
(* <<family, k>>: generation k of a family (k = 0 is the live file `name`, k >= 1 is `name.k`);    *)
(* a log has one family, a store two (data file and index file, renamed in lock step).  Every      *)
(* other name is a bystander.                                                                      *)
(*                                                                                                *)
(* The code builds a bookkeeping list of  min(rotnum, maxrot) + 1  names (entry k = generation k) *)
(* and then renames  list[ii-1] -> list[ii]  for ii counting down to 1; rename of a missing file  *)
(* fails and is ignored; finally the live file is created afresh.                                  *)
(* dev = {} starts the loop at the last entry of the list.  Named deviation:                      *)
(*   "loop_from_rotnum"  the loop starts at ii = rotnum even when rotnum > maxrot, indexing the    *)
(*                       list beyond its end (logger.cpp:296, filepersist.cpp:78)                  *)
(* Like Logger.tla this module is written as step functions on a record so that the model checker *)
(* (MC_Rotation) and the trace monitor (T_Rotation) share it.                                      *)
EXTENDS Naturals, Integers, Sequences, FiniteSets, TLC

MinOf2(a, b) == IF a < b THEN a ELSE b
G(f, k) == <<f, k>>
CapOf(rotnum, maxrot) == MinOf2(rotnum, maxrot)

\* rename(2): the destination is replaced; a missing source is an error the code ignores
Rename(dir, a, b) == IF a \in DOMAIN dir /\ a # b
                     THEN (b :> dir[a]) @@ [n \in DOMAIN dir \ {a} |-> dir[n]]
                     ELSE dir
RECURSIVE RenameFams(_, _, _)
RenameFams(dir, fams, ii) ==
    IF fams = {} THEN dir
    ELSE LET f == CHOOSE x \in fams : TRUE
         IN RenameFams(Rename(dir, G(f, ii - 1), G(f, ii)), fams \ {f}, ii)

\* ---- the algorithm: state [dir, ii, len, pc, oob] ------------------------------------------------
\* len = length of the bookkeeping list (valid indices 0 .. len-1), ii = loop variable
Start(dir, rotnum, maxrot, dev) ==
    IF rotnum = 0 THEN [dir |-> dir, ii |-> 0, len |-> 0, pc |-> "open", oob |-> FALSE]
    ELSE LET len == CapOf(rotnum, maxrot) + 1
         IN [dir |-> dir, ii |-> IF "loop_from_rotnum" \in dev THEN rotnum ELSE len - 1,
             len |-> len, pc |-> "loop", oob |-> FALSE]
\* indices touched by one pass of the loop body: ii - 1 and ii
InBounds(st) == st.pc = "loop" /\ st.ii > 0 => st.ii <= st.len - 1
LoopStep(st, fams) ==
    IF st.ii = 0 THEN [st EXCEPT !.pc = "open"]
    ELSE IF ~InBounds(st) THEN [st EXCEPT !.oob = TRUE, !.ii = @ - 1]   \* undefined behaviour: flagged, nothing renamed
    ELSE [st EXCEPT !.dir = RenameFams(@, fams, st.ii), !.ii = @ - 1]
OpenLive(st, fams, fresh) ==
    [st EXCEPT !.dir = [n \in {G(f, 0) : f \in fams} |-> fresh] @@ @, !.pc = "done"]
RECURSIVE RunLoop(_, _)
RunLoop(st, fams) == IF st.pc = "loop" THEN RunLoop(LoopStep(st, fams), fams) ELSE st
RunRotation(dir, fams, rotnum, maxrot, dev, fresh) ==
    OpenLive(RunLoop(Start(dir, rotnum, maxrot, dev), fams), fams, fresh)

\* ---- C29 as a relation between the directory before (d0) and after (d1) --------------------------
IsGen(n, fams) == n[1] \in fams
Names(d0, d1) == DOMAIN d0 \cup DOMAIN d1
Same(d0, d1, n) == (n \in DOMAIN d0) = (n \in DOMAIN d1) /\ (n \in DOMAIN d0 => d0[n] = d1[n])

\* name.k holds what name.(k-1) held, for k = 1 .. cap
Shifted(d0, d1, fams, cap) ==
    \A f \in fams : \A k \in 1..cap :
        G(f, k - 1) \in DOMAIN d0 => (G(f, k) \in DOMAIN d1 /\ d1[G(f, k)] = d0[G(f, k - 1)])
\* where name.(k-1) did not exist the statement leaves room: name.k is gone, or is what it was
NoInvention(d0, d1, fams, cap) ==
    \A f \in fams : \A k \in 1..cap :
        G(f, k - 1) \notin DOMAIN d0 => (G(f, k) \notin DOMAIN d1 \/ Same(d0, d1, G(f, k)))
\* at most cap generations are kept: nothing beyond name.cap is created or changed by the rotation
CapKept(d0, d1, fams, cap) ==
    \A n \in Names(d0, d1) : (IsGen(n, fams) /\ n[2] > cap) => Same(d0, d1, n)
Untouched(d0, d1, fams) ==
    \A n \in Names(d0, d1) : ~IsGen(n, fams) => Same(d0, d1, n)
\* no rotation (count 0, or an append-mode log that is not forced, or a store opened without purge)
GensKept(d0, d1, fams) ==
    \A n \in Names(d0, d1) : (IsGen(n, fams) /\ n[2] >= 1) => Same(d0, d1, n)
Rotated(d0, d1, fams, cap) ==
    Shifted(d0, d1, fams, cap) /\ NoInvention(d0, d1, fams, cap) /\ CapKept(d0, d1, fams, cap) /\ Untouched(d0, d1, fams)
=============================================================================
