----------------------------- MODULE FileStore -----------------------------
(* Crash-consistency design of the file persister (runtime/filepersist.cpp), property C27.        *)
(* Durable state: an index file (fixed-size records; slot 1 is where the control record lives)    *)
(* and a data file (message bytes appended).  Volatile state: the in-memory index.  Every system  *)
(* call that changes a file is one action; a Crash may happen between any two of them and loses   *)
(* the volatile state; Reopen rebuilds the in-memory index by replaying the index file, first     *)
(* record for a number wins.  Seeks do not change durable state and are folded into the Begin     *)
(* steps (a crash after a seek equals a crash before it).                                         *)
(*                                                                                                *)
(* Dev = {} is the design C27 needs: message bytes are written before the index record that       *)
(* points to them, and slot 1 of the index file is reserved for the control record.               *)
(* Named deviations (what the code was found to do, DESIGN.md 5.9):                               *)
(*   "idx_before_data"        index record written before the message bytes                       *)
(*   "ctrl_slot_shared"       no reserved slot: on an empty index file the first message record   *)
(*                            lands in slot 1 and the next control store overwrites it            *)
EXTENDS Persister, Json

CONSTANTS Keys, MaxOps, MaxCrashes, Dev

VARIABLES idx,     \* index file: sequence of records [seq, a, b] or Hole
          dat,     \* data file: sequence of message ids (one block per message)
          mem,     \* in-memory index: seq -> [a, b]
          pc,      \* operation in progress: [op |-> "idle"] or a put / ctrl record with a step
          up,      \* process alive?
          done,    \* ghost: contract state made of the operations whose last system call completed
          infl,    \* ghost: operation that was in progress at the last crash ([op |-> "none"] if none)
          ever,    \* ghost: seq -> set of ids ever handed to Put for that number
          ops,     \* ghost: operations begun, in order (the replay schedule)
          ncrash

vars == <<idx, dat, mem, pc, up, done, infl, ever, ops, ncrash>>

Hole == [seq |-> 0, a |-> 0, b |-> 0, hole |-> TRUE]
Rec(s, a, b) == [seq |-> s, a |-> a, b |-> b, hole |-> FALSE]
Idle == [op |-> "idle"]
NoOp == [op |-> "none"]
NextId == 10 + Len(ops) + 1       \* every put carries a fresh message

Init == /\ idx = <<>> /\ dat = <<>> /\ mem = EmptyFn /\ pc = Idle /\ up = TRUE
        /\ done = CInit /\ infl = NoOp /\ ever = [k \in Keys |-> {}] /\ ops = <<>> /\ ncrash = 0

SetAt(s, i, v) == IF i <= Len(s) THEN [s EXCEPT ![i] = v]
                  ELSE s \o [j \in 1..(i - Len(s) - 1) |-> Hole] \o <<v>>

\* ---- message store: Begin (checks, seeks) ; two writes ; return --------------------------------
BeginPut(k) ==
    /\ up /\ pc = Idle /\ Len(ops) < MaxOps /\ k # 0 /\ k \notin DOMAIN mem
    /\ LET ipos == IF idx = <<>> /\ "ctrl_slot_shared" \notin Dev THEN 2 ELSE Len(idx) + 1
       IN pc' = [op |-> "put", seq |-> k, id |-> NextId, off |-> Len(dat), ipos |-> ipos, step |-> 0]
    /\ ever' = [ever EXCEPT ![k] = @ \cup {NextId}]
    /\ ops' = Append(ops, [op |-> "Put", seq |-> k, id |-> NextId])
    /\ UNCHANGED <<idx, dat, mem, up, done, infl, ncrash>>

WriteIdx == idx' = SetAt(idx, pc.ipos, Rec(pc.seq, pc.off, 1)) /\ UNCHANGED dat
WriteDat == dat' = Append(dat, pc.id) /\ UNCHANGED idx

PutW1 == /\ up /\ pc.op = "put" /\ pc.step = 0
         /\ IF "idx_before_data" \in Dev THEN WriteIdx ELSE WriteDat
         /\ pc' = [pc EXCEPT !.step = 1]
         /\ UNCHANGED <<mem, up, done, infl, ever, ops, ncrash>>

PutW2 == /\ up /\ pc.op = "put" /\ pc.step = 1
         /\ IF "idx_before_data" \in Dev THEN WriteDat ELSE WriteIdx
         /\ mem' = (pc.seq :> [a |-> pc.off, b |-> 1]) @@ mem
         /\ done' = Apply(done, [op |-> "Put", seq |-> pc.seq, id |-> pc.id]).st
         /\ pc' = Idle
         /\ UNCHANGED <<up, infl, ever, ops, ncrash>>

\* ---- control store: update memory ; seek to slot 1 ; write ---------------------------------------
BeginCtrl ==
    /\ up /\ pc = Idle /\ Len(ops) < MaxOps
    /\ LET v == NextId IN
       /\ mem' = (0 :> [a |-> v, b |-> v + 100]) @@ [k \in DOMAIN mem \ {0} |-> mem[k]]
       /\ pc' = [op |-> "ctrl", s |-> v, r |-> v + 100]
       /\ ops' = Append(ops, [op |-> "PutCtrl", s |-> v, r |-> v + 100])
    /\ UNCHANGED <<idx, dat, up, done, infl, ever, ncrash>>

CtrlW == /\ up /\ pc.op = "ctrl"
         /\ idx' = SetAt(idx, 1, Rec(0, pc.s, pc.r))
         /\ done' = Apply(done, [op |-> "PutCtrl", s |-> pc.s, r |-> pc.r]).st
         /\ pc' = Idle
         /\ UNCHANGED <<dat, mem, up, infl, ever, ops, ncrash>>

\* ---- faults ---------------------------------------------------------------------------------------
Crash == /\ up /\ ncrash < MaxCrashes
         /\ up' = FALSE /\ mem' = EmptyFn /\ pc' = Idle
         /\ infl' = IF pc = Idle THEN NoOp ELSE pc
         /\ ncrash' = ncrash + 1
         /\ UNCHANGED <<idx, dat, done, ever, ops>>

RECURSIVE Replay(_, _)
Replay(s, m) ==
    IF s = <<>> THEN m
    ELSE LET r == Head(s) IN
         IF r.hole /\ "ctrl_slot_shared" \notin Dev THEN Replay(Tail(s), m)     \* reserved slot never written
         ELSE IF r.seq \in DOMAIN m THEN Replay(Tail(s), m)                  \* first record wins
         ELSE Replay(Tail(s), (r.seq :> [a |-> r.a, b |-> r.b]) @@ m)

Reopen == /\ ~up /\ up' = TRUE /\ mem' = Replay(idx, EmptyFn)
          /\ UNCHANGED <<idx, dat, pc, done, infl, ever, ops, ncrash>>

Next == (\E k \in Keys : BeginPut(k)) \/ PutW1 \/ PutW2 \/ BeginCtrl \/ CtrlW \/ Crash \/ Reopen
Spec == Init /\ [][Next]_vars

\* ---- what a reader observes ----------------------------------------------------------------------
NotFound == -2
ShortRead == -3
ReadMsg(k) == IF k = 0 \/ k \notin DOMAIN mem THEN NotFound
              ELSE IF mem[k].a + 1 > Len(dat) THEN ShortRead ELSE dat[mem[k].a + 1]
ReadCtrl == IF 0 \in DOMAIN mem THEN <<mem[0].a, mem[0].b>> ELSE <<>>

Quiet == up /\ pc = Idle

\* ---- C27 ---------------------------------------------------------------------------------------------
CompletedSurvive == Quiet => \A k \in Stored(done) : ReadMsg(k) = done.store[k]
NoAlienBytes == Quiet => \A k \in Keys : ReadMsg(k) \in {NotFound, ShortRead} \cup ever[k]
CtrlIsLastCompleted ==
    Quiet => \/ ReadCtrl = done.ctrl
             \/ infl.op = "ctrl" /\ ReadCtrl = <<infl.s, infl.r>>     \* crashed after its write completed
\* "further stores after reopening remain retrievable" is CompletedSurvive for the stores begun
\* after a Reopen; the witness below makes sure the model really contains such stores.
Reach_StoreAfterReopen == ~(Quiet /\ ncrash > 0 /\ \E k \in Stored(done) : done.store[k] > 10 + 2)

\* every begun-operation sequence once (no crash): the schedules replayed on the real code
Leaf == (Quiet /\ ncrash = 0 /\ Len(ops) = MaxOps) => PrintT("LEAF " \o ToJson(ops))
=============================================================================
