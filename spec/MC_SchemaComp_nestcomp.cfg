CONSTANTS
  FieldNums <- Seq2
  PairNums <- Pairs0
  CountNums <- Counts1
  MsgTypes <- Msgs1
  AdminTypes = {}
  CompNames <- Comps2
  MaxDepth = 1
  MaxItems = 3
  MaxSteps = 4
  MinSteps = 0
  Pick <- PickAll
  Variants = {}
  Dev = {}
  FieldOptions <- SmallOptions
INIT Init
NEXT Next
INVARIANT Valid
INVARIANT OwnTraits
INVARIANT DistinctDefsDistinctTraits
INVARIANT Export
VIEW View
CHECK_DEADLOCK FALSE
