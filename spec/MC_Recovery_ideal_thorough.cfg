CONSTANTS
  Dev = {}
  MaxSteps = 11
  MaxPeer = 10
SPECIFICATION Spec
INVARIANT NoSeqTermination
INVARIANT Recovered
INVARIANT NeverSilentlyBehind
VIEW StateView
CHECK_DEADLOCK FALSE
