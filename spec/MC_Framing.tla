----------------------------- MODULE MC_Framing -----------------------------
EXTENDS Framing
MsgsValid == <<[len |-> 3, bad |-> ""], [len |-> 12, bad |-> ""]>>
MsgsValid3 == <<[len |-> 3, bad |-> ""], [len |-> 12, bad |-> ""], [len |-> 1, bad |-> ""]>>
MsgsCorrupt == <<[len |-> 3, bad |-> ""], [len |-> 12, bad |-> "len_zero"], [len |-> 2, bad |-> ""]>>
MsgsCorrupt2 == <<[len |-> 3, bad |-> "beginstring"], [len |-> 2, bad |-> ""]>>
=============================================================================
