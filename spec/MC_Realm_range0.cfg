CONSTANTS
  Vals = {0, 1, 2, 3}
  Dev = {"range_idx_always_0"}
INIT Init
NEXT Next
INVARIANT C10_Idx
CHECK_DEADLOCK FALSE
