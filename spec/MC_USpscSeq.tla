---------------------------- MODULE MC_USpscSeq ----------------------------
(* Export of call-grain schedules of USpsc.tla for replay on a real ff::uSWSR_Ptr_Buffer: calls do   *)
(* not overlap (a call, once begun, runs to its end), `hist` is the sequence of calls so far         *)
(* (U = push, O = pop) and is hidden by VIEW, so TLC prints one shortest call sequence for every    *)
(* edge (quiescent state, call) of the call-grain state graph: every combination of ring fill       *)
(* levels, read/write positions, chain length and cache content the bounds allow, followed by       *)
(* either call.                                                                                     *)
EXTENDS USpsc, Json
VARIABLE hist
InitS == Init /\ hist = <<>>
NextS == \/ /\ Quiescent
            /\ \/ P_avail /\ hist' = Append(hist, "U")
               \/ C_e1 /\ hist' = Append(hist, "O")
         \/ /\ cpc # "C_e1" /\ Consumer /\ UNCHANGED hist
         \/ /\ cpc = "C_e1" /\ ppc # "P_avail" /\ Producer /\ UNCHANGED hist
Leaf == (Quiescent /\ hist # <<>>) => PrintT("LEAF " \o ToJson(<<hist>>))
View == vars
=============================================================================
