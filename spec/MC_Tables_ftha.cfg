CONSTANTS
  Vals = {1, 2}
  Dev = {"ftha_empty_reads_before"}
INIT Init
NEXT Next
INVARIANT CtorReadsInBounds
CHECK_DEADLOCK FALSE
