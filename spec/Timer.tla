------------------------------- MODULE Timer -------------------------------
(* FIX8::Timer<T> (include/fix8/timer.hpp): a thread that polls a priority queue of events and runs *)
(* the callback of the least-due event once its due time has passed.  Design spec in virtual time   *)
(* (milliseconds):                                                                                  *)
(*    pending : id -> [due, iv, rep]      the event queue (a multiset; ids make elements distinct)  *)
(*    Schedule(id, delay, rep)  due = now + delay, iv = delay           Timer::schedule             *)
(*    Advance(d)                the clock moves                                                     *)
(*    Fire(r)                   enabled only for a least-due pending event with due <= now; the     *)
(*                              callback returns r; a repeating event whose callback returned true  *)
(*                              is queued again with due = now + iv      Timer::operator()          *)
(*    Clear                     empties the queue                          Timer::clear              *)
(* Lateness is free: nothing forces Fire to happen.  The operators below are shared by the model    *)
(* (MC_Timer) and the trace monitor (T_Timer).                                                      *)
EXTENDS Naturals, Integers, Sequences, FiniteSets, TLC

NoEvents == [x \in {} |-> 0]

Ids(p) == DOMAIN p
MinDue(p) == IF Ids(p) = {} THEN 0 ELSE LET i == CHOOSE i \in Ids(p) : \A j \in Ids(p) : p[i].due <= p[j].due IN p[i].due
\* the events Fire may take at time `now` under deviation set dev
Fireable(p, now, dev) ==
    { i \in Ids(p) : /\ p[i].due <= now + (IF "fire_early" \in dev THEN 1 ELSE 0)
                     /\ ("fire_any_due" \in dev \/ p[i].due = MinDue(p)) }
Without(p, i) == [j \in Ids(p) \ {i} |-> p[j]]
With(p, i, r) == [j \in Ids(p) \cup {i} |-> IF j = i THEN r ELSE p[j]]

SchedOf(p, now, id, delay, rep) == With(p, id, [due |-> now + delay, iv |-> delay, rep |-> rep])
\* queue after event i ran at `now` and its callback returned r
AfterFire(p, now, i, r, dev) ==
    IF p[i].rep /\ r
    THEN With(p, i, [p[i] EXCEPT !.due = (IF "repeat_from_due" \in dev THEN p[i].due ELSE now) + p[i].iv])
    ELSE Without(p, i)
ClearOf(p, dev) == IF "clear_keeps_one" \in dev /\ Ids(p) # {} THEN [j \in {CHOOSE j \in Ids(p) : TRUE} |-> p[j]] ELSE NoEvents
=============================================================================
