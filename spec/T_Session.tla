----------------------------- MODULE T_Session -----------------------------
(* Walks a recorded trace of probe_session with the monitors of SessionMon.tla (one state per line). *)
EXTENDS SessionMon

VARIABLES l, ms, fails, nexec, labels

Ev == TraceLog[l]

Bump(b, k) == IF k = "" THEN b ELSE IF k \in DOMAIN b THEN [b EXCEPT ![k] = @ + 1] ELSE (k :> 1) @@ b
Init == l = 1 /\ ms = MsInit([prop |-> "none"]) /\ fails = <<>> /\ nexec = 0 /\ labels = [x \in {} |-> 0]
Next ==
    \/ /\ l <= NLines
       /\ LET r == MonStep(ms, Ev) IN
          /\ ms' = r.m
          /\ fails' = IF r.ok THEN fails
                      ELSE Append(fails, [line |-> l, exec |-> nexec, why |-> r.why, sig |-> Prop(ms) \o ":" \o r.sig])
       /\ nexec' = IF Ev.e = "Reset" THEN nexec + 1 ELSE nexec
       /\ labels' = IF Ev.e \in {"Reset", "New"} THEN labels ELSE Bump(labels, StateLabel(ms, Ev))
       /\ l' = l + 1
    \/ /\ l = NLines + 1
       /\ WriteVerdictL(l - 1, fails, nexec, labels)
       /\ l' = l + 1
       /\ UNCHANGED <<ms, fails, nexec, labels>>
=============================================================================
