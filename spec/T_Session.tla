----------------------------- MODULE T_Session -----------------------------
(* Walks a recorded trace of probe_session with the monitors of SessionMon.tla (one state per line). *)
EXTENDS SessionMon

VARIABLES l, ms, fails, nexec

Ev == TraceLog[l]

Init == l = 1 /\ ms = MsInit([prop |-> "none"]) /\ fails = <<>> /\ nexec = 0
Next ==
    \/ /\ l <= NLines
       /\ LET r == MonStep(ms, Ev) IN
          /\ ms' = r.m
          /\ fails' = IF r.ok THEN fails
                      ELSE Append(fails, [line |-> l, exec |-> nexec, why |-> r.why, sig |-> Prop(ms) \o ":" \o r.sig])
       /\ nexec' = IF Ev.e = "Reset" THEN nexec + 1 ELSE nexec
       /\ l' = l + 1
    \/ /\ l = NLines + 1
       /\ WriteVerdict(l - 1, fails, nexec)
       /\ l' = l + 1
       /\ UNCHANGED <<ms, fails, nexec>>
=============================================================================
