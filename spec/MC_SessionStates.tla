-------------------------- MODULE MC_SessionStates --------------------------
(* TLC explores the session state machine of SessionStates.tla over every abstract input and checks   *)
(* design facts about it.  Three variables: the state, the role, the last input (ghost).              *)
EXTENDS SessionStates

VARIABLES s, role, last, prev,
          shut,      \* Session::stop() has run (control flag `shutdown`): the supervision service does nothing any more
          hbOn,      \* the supervision service is scheduled (done at the end of a successful handle_logon)
          enf, ign   \* session configuration: CompID enforcement, ignore_logon_sequence_check
vars == <<s, role, last, prev, shut, hbOn, enf, ign>>

\* per kind only the facts that matter to it vary; CompID enforcement and ignore_logon_sequence_check are session
\* configuration (chosen once)
R0(k, q, d, i, p, ex, lt) == [op |-> "Recv", role |-> role, kind |-> k, seqrel |-> q, dup |-> d, ids |-> i, persist |-> p,
                              ignoreGap |-> ign, enforce |-> enf, extra |-> ex, late |-> lt]
R(k, q, d, i, p, ex) == R0(k, q, d, i, p, ex, FALSE)
Rels == {"eq", "hi", "lo"}
RecvInputs == {R("bad", "eq", FALSE, TRUE, FALSE, "")}
              \cup { R("A", q, d, i, FALSE, ex) : q \in Rels, d \in BOOLEAN, i \in BOOLEAN, ex \in {"", "refused"} }
              \cup { R("2", q, d, i, p, ex) : q \in Rels, d \in BOOLEAN, i \in BOOLEAN, p \in BOOLEAN, ex \in {"", "badrange"} }
              \cup { R("4", q, FALSE, i, FALSE, "") : q \in {"eq", "lo"}, i \in BOOLEAN }
              \cup { R(k, q, d, i, FALSE, "") : k \in {"0", "1", "3", "5", "app"}, q \in Rels, d \in BOOLEAN, i \in BOOLEAN }
              \cup { R0(k, "lo", TRUE, TRUE, FALSE, "", TRUE) : k \in {"0", "app"} }
Inputs(r) == RecvInputs \cup { [op |-> "Start", role |-> r], [op |-> "Restart"], [op |-> "Send"], [op |-> "Drop"] }
             \cup { [op |-> "Tick", silent |-> b] : b \in BOOLEAN }

Init == s = StNone /\ role \in {"ini", "acc"} /\ last = [op |-> "none"] /\ prev = StNone /\ shut = FALSE /\ hbOn = FALSE
        /\ enf \in BOOLEAN /\ ign \in BOOLEAN
Step == \E x \in Inputs(role) :
           /\ x.op = "Tick" => (hbOn /\ ~shut)            \* heartbeat_service: scheduled after logon, returns at once after stop()
           /\ x.op \in {"Send", "Recv", "Drop"} => s # StNone    \* no connection before start
           /\ \E t \in Next(s, x) :
                 /\ s' = t /\ last' = x /\ prev' = s /\ UNCHANGED <<role, enf, ign>>
                 /\ shut' = IF x.op \in {"Start", "Restart"} THEN FALSE
                            ELSE shut \/ x.op = "Drop" \/ t \in {StTerm, StLogoffSent} \/ (x.op = "Recv" /\ x.kind = "5")
                 /\ hbOn' = IF x.op \in {"Restart", "Start"} THEN FALSE        \* the service returns false (is dropped) once stop() has run
                            ELSE hbOn \/ (x.op = "Recv" /\ x.kind = "A" /\ s # StCont /\ t = StCont)
Spec == Init /\ [][Step]_vars

Moved == last.op # "none" /\ prev # s
\* states the enumeration declares are never entered by any call
OnlyLiveStates == s \notin NeverEntered
\* a session becomes established by handling a Logon - or (the code's machine, reproduced on the real session: an
\* acceptor in wait_for_logon / an initiator in logon_sent answers a ResendRequest and is "continuous" afterwards, no
\* Logon seen, client list never consulted) by handling a ResendRequest with a persister attached.
\* EstablishedOnlyByLogon is therefore a *witness* (must be violated); the weaker fact below holds.
EstablishedOnlyByLogon == (Moved /\ Established(s) /\ ~Established(prev)) => (last.op = "Recv" /\ last.kind = "A")
EstablishedOnlyByLogonOrResend == (Moved /\ Established(s) /\ ~Established(prev))
                                     => (last.op = "Recv" /\ (last.kind = "A" \/ (last.kind = "2" /\ last.persist /\ last.extra # "badrange")))
\* a ResendRequest is outstanding only after a too-high message met a continuous session
ResendSentOnlyFromContinuous == (Moved /\ s = StResendSent) => (prev = StCont /\ last.op = "Recv" /\ last.seqrel = "hi" /\ last.kind \notin {"A", "4", "bad"})
\* a forced Logout is only ever sent from an established state (handle_logon is in logon_received, which counts as
\* established, when it checks the Logon's number)
LogoffOnlyWhenEstablished == (Moved /\ s = StLogoffSent) => (Established(prev) \/ (last.op = "Recv" /\ last.kind = "A"))
\* a TestRequest is outstanding only after a silent supervision tick, and only a Heartbeat (or the end) leaves that state
TestRequestBySilence == (Moved /\ s = StTestReqSent) => (last.op = "Tick" /\ last.silent)
\* (or the end of a replay: retrans_callback sets continuous whatever the state was - LeavesTestReqOnlyByHeartbeat is a witness)
LeavesTestReqOnlyByHeartbeat == (Moved /\ prev = StTestReqSent /\ s = StCont) => (last.op = "Recv" /\ last.kind = "0")
LeavesTestReq == (Moved /\ prev = StTestReqSent /\ s = StCont) => (last.op = "Recv" /\ last.kind \in {"0", "2", "A"})
\* wrong CompIDs under enforcement never leave the session in normal operation
BadIdsEnd == (last.op = "Recv" /\ last.kind \notin {"bad"} /\ last.enforce /\ ~last.ids /\ Established(prev) /\ prev # StLogonRecv
              /\ ~(last.kind = "A" /\ prev = StCont))
             => s \in {StLogoffSent, StTerm}

\* witnesses (must be violated): oddities of the machine that the code has and a reader might not expect
\*   a Logon handled by a terminated session makes it continuous again (process() does not look at the state first)
NoRevival == ~(Moved /\ prev = StTerm /\ s = StCont)
\*   a supervision tick replaces an outstanding ResendRequest state by test_request_sent
NoResendStateLostToTick == ~(Moved /\ prev = StResendSent /\ s = StTestReqSent)
\*   the resend state is reachable
AllReached == ~(s = StResendSent /\ prev = StCont)
=============================================================================
