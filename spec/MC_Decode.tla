----------------------------- MODULE MC_Decode -----------------------------
(* Model checking of the strict-decoder acceptor (Decode.tla) over a small schema:                *)
(*   header  {8 9 35, 34 mandatory, 50 optional}                                                  *)
(*   body X  {11 mandatory, 58 optional, 453 = count of group G}                                  *)
(*   group G {448 first, 447 optional, 802 = count of nested group N}     group N {523 first, 803 mandatory} *)
(*   trailer {93 optional, 10}                                                                    *)
(* plus a tag unknown to the schema (5000) and a tag = 58 modulo 65536 (65594).                   *)
(* TLC explores every token sequence up to MaxLen (extension stops at the first rejection) and     *)
(* checks that the state machine accepts exactly the sequences of the *grammar* Conf below, which *)
(* states C04's clauses declaratively (existential splits into sections / elements), and that an  *)
(* accepted sequence is retained token for token.  With a named deviation in Dev the invariants   *)
(* must fail (vacuity guard) and TLC's counterexample is the minimal input that the real decoder  *)
(* mishandles.  The export configuration prints every explored sequence; lib/props/c04.py         *)
(* instantiates them on real message types.                                                       *)
EXTENDS Decode, Json

CONSTANTS MaxLen, Lenient, Dev
VARIABLES toks, st

F(m, g) == [m |-> m, g |-> g]
S == [scopes |-> <<
        [f |-> ("8" :> F(TRUE, 0) @@ "9" :> F(TRUE, 0) @@ "35" :> F(TRUE, 0) @@ "34" :> F(TRUE, 0) @@ "50" :> F(FALSE, 0)),
         first |-> ""],
        [f |-> ("93" :> F(FALSE, 0) @@ "10" :> F(TRUE, 0)), first |-> ""],
        [f |-> ("11" :> F(TRUE, 0) @@ "58" :> F(FALSE, 0) @@ "453" :> F(FALSE, 4)), first |-> ""],
        [f |-> ("448" :> F(TRUE, 0) @@ "447" :> F(FALSE, 0) @@ "802" :> F(FALSE, 5)), first |-> "448"],
        [f |-> ("523" :> F(TRUE, 0) @@ "803" :> F(TRUE, 0)), first |-> "523"] >>,
      hdr |-> 1, trl |-> 2, msgs |-> [X |-> 3]]
Sum == 7
E == [body |-> 3, lenient |-> Lenient, sum |-> Sum, dev |-> Dev]

T(a, k, v, c, k16) == [a |-> a, k |-> k, v |-> v, c |-> c, k16 |-> k16]
P(a, k) == T(a, k, "v", 0, k)
Alphabet == {P("Hm", "34"), P("Ho", "50"), P("Bm", "11"), P("Bo", "58"),
             T("G1", "453", "1", 1, "453"), T("G2", "453", "2", 2, "453"), P("Gf", "448"), P("Go", "447"),
             T("N1", "802", "1", 1, "802"), P("Nf", "523"), P("No", "803"), P("To", "93"),
             P("U", "5000"), T("W", "65594", "v", 0, "58"),
             T("Cok", "10", "007", 0, "10"), T("Cbad", "10", "008", 0, "10")}
T8 == P("8", "8")
T9 == P("9", "9")
T35 == T("35", "35", "X", 0, "35")

Init == toks = <<T8, T9, T35>> /\ st = Start(S, E, T8, T9, T35)
Next == /\ st.ok /\ Len(toks) < MaxLen
        /\ \E t \in Alphabet : /\ st.sec = "end" => t.a = "Bo"       \* one representative after the checksum
                               /\ toks' = Append(toks, t)
                               /\ st' = Feed(S, E, st, t)

Accepts == Len(toks) >= 4 /\ Finish(S, E, st, toks[Len(toks)]).ok

\* ---- C04's clauses as a grammar --------------------------------------------------------------------
RECURSIVE Items(_, _, _), Elems(_, _, _)
\* s is a sequence of fields of scope sc, no key twice (seen = keys already used), every mandatory key occurs
Items(s, sc, seen) ==
    IF s = <<>> THEN MandOf(S, sc) \subseteq seen
    ELSE LET t == s[1] IN
         /\ t.k \in Keys(S, sc) /\ t.k \notin seen
         /\ IF Sc(S, sc).f[t.k].g # 0 /\ t.c > 0
            THEN \E m \in 0..(Len(s) - 1) :
                    /\ Elems(SubSeq(s, 2, m + 1), Sc(S, sc).f[t.k].g, t.c)
                    /\ Items(SubSeq(s, m + 2, Len(s)), sc, seen \cup {t.k})
            ELSE Items(Tail(s), sc, seen \cup {t.k})
\* s is a concatenation of n elements of group scope g (any number if Lenient), each beginning with the first field
Elems(s, g, n) ==
    IF s = <<>> THEN Lenient \/ n = 0
    ELSE /\ Lenient \/ n > 0
         /\ s[1].k = Sc(S, g).first
         /\ \E m \in 1..Len(s) : Items(SubSeq(s, 1, m), g, {}) /\ Elems(SubSeq(s, m + 1, Len(s)), g, n - 1)

Conf(s) ==
    /\ Len(s) >= 4 /\ s[1].k = "8" /\ s[2].k = "9" /\ s[3].k = "35"
    /\ s[Len(s)].k = "10" /\ s[Len(s)].v = Pad3(Sum)
    /\ \E i \in 3..(Len(s) - 1) : \E j \in i..(Len(s) - 1) :
          /\ Items(SubSeq(s, 4, i), S.hdr, {"8", "9", "35"})
          /\ Items(SubSeq(s, i + 1, j), 3, {})
          /\ Items(SubSeq(s, j + 1, Len(s)), S.trl, {})

AcceptsExactlyConforming == Accepts <=> Conf(toks)
KV(s) == [i \in DOMAIN s |-> <<s[i].k, s[i].v>>]
RetainsAll == Accepts => KV(Finish(S, E, st, toks[Len(toks)]).out) = KV(toks)
\* witnesses (must be violated): the model does contain accepted sequences with a nested group
Reach_NestedAccepted == ~(Accepts /\ \E i \in DOMAIN toks : toks[i].a = "Nf")

Names(s) == [i \in 1..(Len(s) - 3) |-> s[i + 3].a]
Leaf == (~st.ok \/ st.sec = "end" \/ Len(toks) = MaxLen) =>
            PrintT("LEAF " \o ToJson([t |-> Names(toks), acc |-> Accepts, why |-> st.why,
                                        accf |-> Run(S, [E EXCEPT !.lenient = FALSE], toks).ok]))
=============================================================================
