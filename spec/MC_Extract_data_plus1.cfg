CONSTANTS
  Dev = {"data_tag_plus1_only"}
  Lens = {0, 1, 30, 31, 32, 33, 2046, 2047, 2048, 2049}
  MaxFields = 4
INIT InitD
NEXT NextD
INVARIANT DataOpaque
CHECK_DEADLOCK FALSE
