CONSTANTS
  MaxEl = 1
  NegInts = FALSE
  Dev = {"move_leaves_group"}
SPECIFICATION Spec
INVARIANT PositionOrdered
INVARIANT WireWellFormed
INVARIANT RoundTrip
INVARIANT CloneSame
VIEW View
CHECK_DEADLOCK FALSE
