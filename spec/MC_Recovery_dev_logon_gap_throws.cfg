CONSTANTS
  Dev = {"logon_gap_throws"}
  MaxSteps = 9
  MaxPeer = 8
SPECIFICATION Spec
INVARIANT NoSeqTermination
INVARIANT Recovered
INVARIANT NeverSilentlyBehind
VIEW StateView
CHECK_DEADLOCK FALSE
