CONSTANTS
  SegSize = 2
  NSeg = 5
  CacheCap = 1
  NItems = 10
  NPops = 12
  Dev = {}
INIT InitS
NEXT NextS
INVARIANT Fifo
INVARIANT NoBreach
CONSTRAINT Leaf
VIEW View
CHECK_DEADLOCK FALSE
