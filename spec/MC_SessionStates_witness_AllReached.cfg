SPECIFICATION Spec
INVARIANT AllReached
CHECK_DEADLOCK FALSE
