---------------------------- MODULE T_SchemaComp ----------------------------
(* Trace monitor for C13 (and the metadata half of C14): the metadata of f8c-generated code against *)
(* the abstract schema it was generated from.  One execution = one schema:                          *)
(*   Reset{id, schema}      schema: the abstract schema state exported by SchemaComp.tla (SchemaOps)*)
(*   Compile{f8c, cxx, link}   did f8c succeed, did its output compile, did it link with the probe  *)
(*   MCtx{ns, version, begin}                                                                       *)
(*   MField{num, fnum, name, found, rtype, rft, vals}   one per entry of the generated field table  *)
(*   MMsg{mt, name, admin, made, tr}    one per entry of the generated message table (incl. header  *)
(*                          and trailer); tr = traits <<num, FieldType, pos, mandatory, group, comp>>*)
(*   MGroup{mt, path, made, tr}         one per repeating group reachable from a message            *)
(*   MEnd{fields, msgs, groups}                                                                     *)
(* recorded by harness/src/probe_meta.cpp from the generated tables.  The monitor demands what C13   *)
(* states: the compiler succeeds and its output compiles; every field the schema uses is in the     *)
(* field table under its number with its name and its enumerated values (value and description);    *)
(* every table entry is a field of the schema; every message is in the message table under its      *)
(* msgtype with its name and admin flag; every container (header, trailer, message, each repeating  *)
(* group at each nesting level) has exactly the schema's members (after component expansion) with   *)
(* their types, mandatory flags, group flags and - by ascending position - the schema's order.      *)
(* Readings that cannot raise a false alarm: declared but unused fields may be absent; the mandatory*)
(* flag of BeginString/BodyLength/MsgType/CheckSum is not judged (cleared by design); a group count *)
(* entry may carry type int or its declared type; mandatory flags of the members of a group inside  *)
(* an optional component are not judged (SchemaOps.Flat); absolute position values are not judged,  *)
(* only the order they induce.  Every failing table entry / container is recorded (a container that *)
(* failed still counts as seen); a failed compilation ends the execution.                           *)
EXTENDS Common, SchemaOps

VARIABLES l, ms, fails, nexec

NoSchema == [fields |-> <<>>, hdr |-> <<>>, trl |-> <<>>, msgs |-> <<>>, comps |-> <<>>]
MsInit == [S |-> NoSchema, dead |-> TRUE, compiled |-> FALSE, fseen |-> {}, mseen |-> {}, gseen |-> {}]
Ev == TraceLog[l]

Fail(m, why, sig) == [ok |-> FALSE, m |-> m, why |-> why, sig |-> sig]
Kill(m, why, sig) == [ok |-> FALSE, m |-> [m EXCEPT !.dead = TRUE], why |-> why, sig |-> sig]
Pass(m) == [ok |-> TRUE, m |-> m, why |-> "", sig |-> ""]

\* ---- one container -----------------------------------------------------------------------------------
Pos(tr, n) == tr[CHOOSE i \in DOMAIN tr : tr[i][1] = n][3]
MemberOf(exp, n) == exp[CHOOSE i \in DOMAIN exp : exp[i].n = n]
\* "" or the first clause that fails
TraitsWhy(S, exp, tr) ==
    IF Len(tr) # Len(exp) \/ { tr[i][1] : i \in DOMAIN tr } # Nums(exp) THEN "members"
    ELSE IF \E i \in DOMAIN tr : (tr[i][5] = 1) # MemberOf(exp, tr[i][1]).g THEN "group_flag"
    ELSE IF \E i \in DOMAIN tr : LET m == MemberOf(exp, tr[i][1])  t == FieldDef(S, m.n).type IN
                                  IF m.g THEN tr[i][2] \notin {"int", TypeEnum[t]} ELSE tr[i][2] # TypeEnum[t] THEN "type"
    ELSE IF \E i \in DOMAIN tr : LET m == MemberOf(exp, tr[i][1]) IN
                                  m.n \notin DerivedNums /\ m.m # 2 /\ tr[i][4] # m.m THEN "mandatory"
    ELSE IF \E i, j \in DOMAIN exp : i < j /\ ~(Pos(tr, exp[i].n) < Pos(tr, exp[j].n)) THEN "order"
    ELSE ""
BadType(S, exp, tr) ==
    LET i == CHOOSE i \in DOMAIN tr : LET m == MemberOf(exp, tr[i][1])  t == FieldDef(S, m.n).type IN
                                      IF m.g THEN tr[i][2] \notin {"int", TypeEnum[t]} ELSE tr[i][2] # TypeEnum[t]
    IN FieldDef(S, tr[i][1]).type
\* a group that does not have its own definition's traits: whose does it have?
Attribution(S, cnt, exp, tr) ==
    LET others == { o \in AllGroupOccs(S) : o[2][Len(o[2])] = cnt /\ o[3] # exp /\ TraitsWhy(S, o[3], tr) = "" } IN
    IF others = {} THEN "unexplained"
    ELSE LET o == CHOOSE o \in others : TRUE IN
         "traits_of_another_definition_of_the_count_field:" \o
         (IF MemberStruct(o[3]) = MemberStruct(exp) THEN "same_members_other_flags_or_order"
          ELSE IF GroupHash(o[3]) = GroupHash(exp) THEN "hash_collision"
          ELSE "different_hash")

CheckContainer(m, mt, path, tr) ==
    LET S == m.S
        top == IF mt = "header" THEN Members(S, S.hdr) ELSE IF mt = "trailer" THEN Members(S, S.trl) ELSE Members(S, MsgDef(S, mt).items)
        w == Walk(top, path)
        where == IF path = <<>> THEN (IF mt \in {"header", "trailer"} THEN mt ELSE "message") ELSE "group_depth" \o ToString(Len(path))
    IN IF ~w.ok THEN Fail(m, "the generated code has a repeating group the schema does not define here", "meta:group_not_in_schema:" \o where)
       ELSE LET why == TraitsWhy(S, w.ms, tr) IN
            IF why = "" THEN Pass(m)
            ELSE Fail(m, "traits of " \o where \o " of message " \o mt \o " differ from the schema: " \o why,
                      "meta:" \o why \o ":" \o where \o
                      (IF why = "type" THEN ":" \o BadType(S, w.ms, tr)
                       ELSE IF path # <<>> THEN ":" \o Attribution(S, path[Len(path)], w.ms, tr) ELSE ""))

\* ---- one monitor step ----------------------------------------------------------------------------------
MonStep(m, e) ==
    IF e.e = "Reset" THEN Pass([MsInit EXCEPT !.S = e.schema, !.dead = FALSE])
    ELSE IF m.dead THEN Pass(m)
    ELSE IF e.e = "Compile" THEN
        IF ~e.f8c THEN Kill(m, "f8c failed on a valid schema", "compile:f8c_failed")
        ELSE IF ~e.cxx THEN Kill(m, "the generated code does not compile", "compile:generated_code_does_not_compile")
        ELSE IF ~e.link THEN Kill(m, "the generated code does not link with the runtime", "compile:generated_code_does_not_link")
        ELSE Pass([m EXCEPT !.compiled = TRUE])
    ELSE IF ~m.compiled THEN Kill(m, "metadata without a successful compilation", "trace:no_compile_event")
    ELSE IF e.e = "MAbort" THEN Kill(m, "reading the generated metadata aborted", "meta:dump_aborted")
    ELSE IF e.e = "MField" THEN
        IF ~HasField(m.S, e.num) THEN Fail(m, "field table entry for a number the schema does not declare", "meta:field_not_in_schema")
        ELSE LET d == FieldDef(m.S, e.num)
                 m1 == [m EXCEPT !.fseen = @ \cup {e.num}] IN
             IF e.fnum # e.num \/ ~e.found THEN Fail(m1, "field table entry is not reachable under its number", "meta:field_number:" \o d.type)
             ELSE IF e.name # d.name THEN Fail(m1, "field name differs from the schema", "meta:field_name:" \o d.type)
             ELSE IF d.vals = <<>> /\ e.vals # <<>> THEN Fail(m1, "enumerated values for a field that has none", "meta:realm_unexpected:" \o d.type)
             ELSE IF d.vals # <<>> /\ (Len(e.vals) # Len(d.vals) \/ { <<e.vals[i][1], e.vals[i][2]>> : i \in DOMAIN e.vals } # { <<d.vals[i][1], d.vals[i][2]>> : i \in DOMAIN d.vals })
                  THEN Fail(m1, "enumerated values (value, description) differ from the schema", "meta:realm_values:" \o d.type)
             ELSE IF d.vals # <<>> /\ e.rtype # "set" THEN Fail(m1, "enumerated values not generated as a set", "meta:realm_kind:" \o d.type)
             ELSE Pass(m1)
    ELSE IF e.e = "MMsg" THEN
        IF e.mt \notin {"header", "trailer"} /\ ~HasMsg(m.S, e.mt) THEN Fail(m, "message table entry for a msgtype the schema does not define", "meta:msg_not_in_schema")
        ELSE LET sect == e.mt \in {"header", "trailer"}
                 name == IF sect THEN e.mt ELSE MsgDef(m.S, e.mt).name
                 admin == IF sect THEN FALSE ELSE MsgDef(m.S, e.mt).admin
                 m1 == [m EXCEPT !.mseen = @ \cup {e.mt}] IN
             IF ~e.made THEN Fail(m1, "the message table entry does not create a message", "meta:msg_not_created")
             ELSE IF e.name # name THEN Fail(m1, "message name differs from the schema", "meta:msg_name")
             ELSE IF ~sect /\ e.own # e.mt THEN Fail(m1, "the created message reports another msgtype", "meta:msg_type")
             ELSE IF e.admin # admin THEN Fail(m1, "admin flag differs from the schema", "meta:admin_flag:" \o (IF admin THEN "admin" ELSE "app"))
             ELSE CheckContainer([m EXCEPT !.mseen = @ \cup {e.mt}], e.mt, <<>>, e.tr)
    ELSE IF e.e = "MGroup" THEN
        IF ~e.made THEN Fail(m, "a declared repeating group cannot be instantiated", "meta:group_not_created")
        ELSE CheckContainer([m EXCEPT !.gseen = @ \cup {<<e.mt, e.path>>}], e.mt, e.path, e.tr)
    ELSE IF e.e = "MEnd" THEN
        IF ~(UsedNums(m.S) \subseteq m.fseen) THEN Fail(m, "a field the schema uses is missing from the field table",
                                                       "meta:field_missing:" \o FieldDef(m.S, CHOOSE n \in UsedNums(m.S) \ m.fseen : TRUE).type)
        ELSE IF ~(({"header", "trailer"} \cup { m.S.msgs[i].mt : i \in DOMAIN m.S.msgs }) \subseteq m.mseen)
             THEN Fail(m, "a message of the schema is missing from the message table", "meta:msg_missing")
        ELSE IF ~({ <<o[1], o[2]>> : o \in AllGroupOccs(m.S) } \subseteq m.gseen)
             THEN Fail(m, "a repeating group of the schema is missing from the generated code", "meta:group_missing")
        ELSE Pass(m)
    ELSE Pass(m)

Init == l = 1 /\ ms = MsInit /\ fails = <<>> /\ nexec = 0
Next ==
    \/ /\ l <= NLines
       /\ LET r == MonStep(ms, Ev) IN
          /\ ms' = r.m
          /\ fails' = IF r.ok THEN fails
                      ELSE Append(fails, [line |-> l, exec |-> nexec, why |-> r.why, sig |-> r.sig])
       /\ nexec' = IF Ev.e = "Reset" THEN nexec + 1 ELSE nexec
       /\ l' = l + 1
    \/ /\ l = NLines + 1
       /\ WriteVerdict(l - 1, fails, nexec)
       /\ l' = l + 1
       /\ UNCHANGED <<ms, fails, nexec>>
=============================================================================
