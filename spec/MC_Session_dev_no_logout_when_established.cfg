CONSTANTS
  Dev = {"no_logout_when_established"}
  MaxSteps = 6
  MaxNs = 8
  MaxNr = 5
  MaxApp = 3
  Props = {"C16", "C17", "C18", "C19"}
SPECIFICATION Spec
INVARIANT MonitorsAccept
INVARIANT CtrlEqualsCounters
INVARIANT StoreWithinSent
VIEW StateView
CHECK_DEADLOCK FALSE
