CONSTANTS
  NP = 2
  NLines = 2
  Dev = {"exit_on_failed_pop_when_stopping"}
  Lvls = {TRUE}
  TwoPhase = TRUE
  Grain = "stmt"
SPECIFICATION Spec
INVARIANT InvExactlyOnce
INVARIANT InvDisabledAbsent
INVARIANT InvProducerOrder
INVARIANT InvSeqConsecutive
INVARIANT InvRetIffAccepted
INVARIANT InvStopComplete
CHECK_DEADLOCK FALSE
