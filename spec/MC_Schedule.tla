---------------------------- MODULE MC_Schedule ----------------------------
(* TLC model of the activation toggle: a session checks its schedule at every unit of time          *)
(* ("at least once a minute"), starting at any phase of the week with any initial activation state, *)
(* exactly as Session::activation_service chains Schedule::test(prev).                              *)
(*   Follows:  after every check the activation state equals the window predicate of the property.  *)
(*   ShapesAgree: the weekday/time-of-day form of the window (InWin, what an implementation writes) *)
(*             and the modular form (ActiveWeekly, what the statement says) are the same predicate. *)
(* Dev = {} must satisfy both for every configuration; every named deviation must violate Follows   *)
(* (vacuity guard, run by lib/props/c24.py).                                                        *)
EXTENDS Schedule

CONSTANTS D,        \* units per day
          Offs,     \* utc offsets (units)
          Dev
VARIABLES cfg, t, active

W == 7 * D
OffsQuick == {-7, -2, 0, 3, 8}             \* units of 4 hours: -28 h .. +32 h (beyond a day on both sides)
OffsThorough == {-12, -5, 0, 6, 14}       \* hours
OffsZero == {0}
Local(x) == (x + cfg.off) % W

Cfgs == { c \in [start : 0..(D - 1), end : 0..(D - 1), off : Offs, sd : -1..6, ed : -1..6] :
            /\ c.start < c.end                       \* Configuration::create_schedule refuses end <= start
            /\ (c.sd = -1) = (c.ed = -1) }

MCInit == /\ cfg \in Cfgs
          /\ t \in 0..(W - 1)
          /\ \E p \in BOOLEAN : active = Test(D, cfg, p, Local(t), Dev)
MCNext == /\ t' = (t + 1) % W
          /\ active' = Test(D, cfg, active, Local(t'), Dev)
          /\ UNCHANGED cfg

Follows == active = Active(D, cfg, Local(t))
ShapesAgree == ~IsDaily(cfg) => (InWin(cfg, DowOf(D, Local(t)), TodOf(D, Local(t))) = ActiveWeekly(D, cfg, Local(t)))

\* every window is non-empty and, unless it spans the whole week, has an outside (the invariants are not vacuous)
ASSUME \A d \in 0..6 :
    \* weekday names: the k-letter prefix of a name decodes to the day exactly when no other name shares it,
    \* and one or two letters always suffice
    /\ \A k \in 1..Len(FullNames[d + 1]) :
         LET p == Take(FullNames[d + 1], k)
             shared == \E o \in 0..6 : o # d /\ HasPrefix(FullNames[o + 1], p)
         IN (DecodeDow(p) = d) = (~shared)
    /\ DecodeDow(Take(FullNames[d + 1], 2)) = d
    /\ DecodeDow(<<48 + d>>) = d
ASSUME DecodeDow(<<55>>) = -1 /\ DecodeDow(<<>>) = -1 /\ DecodeDow(<<49, 49>>) = -1 /\ DecodeDow(<<115>>) = -1
          /\ DecodeDow(<<116>>) = -1 /\ DecodeDow(<<83, 65>>) = 6 /\ DecodeDow(<<115, 120>>) = -1
=============================================================================
