CONSTANTS
 Dev = {}
 Family = "mid"
 MaxMid = 13
 MaxTiny = 7
 CarryTail = 2
 CarryLens = {}
INIT Init
NEXT Next
CHECK_DEADLOCK FALSE
INVARIANTS InvResult InvReads InvGhost InvLoop InvTail
