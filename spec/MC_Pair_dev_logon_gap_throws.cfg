CONSTANTS
  Dev = {"logon_gap_throws"}
  MaxSteps = 12
  MaxSend = 2
  MaxDrops = 1
  MaxRestarts = 1
SPECIFICATION Spec
INVARIANT NoTermination
INVARIANT AllDelivered
INVARIANT FirstInOrder
INVARIANT RedeliveriesFlagged
INVARIANT NoSilentGap
VIEW StateView
CHECK_DEADLOCK FALSE
