CONSTANTS
  NQ = 2
  NProd = 2
  NCons = 2
  NPush = 2
  NPop = 2
  Dev = {"strict_empty_ghost"}
INIT InitX
NEXT NextX
INVARIANT EmptyOnlyIfNothingPublished
CHECK_DEADLOCK FALSE
