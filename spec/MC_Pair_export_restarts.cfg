CONSTANTS
  Dev = {}
  MaxSteps = 10
  MaxSend = 1
  MaxDrops = 2
  MaxRestarts = 2
SPECIFICATION Spec
INVARIANT NoTermination
INVARIANT AllDelivered
INVARIANT FirstInOrder
INVARIANT RedeliveriesFlagged
INVARIANT NoSilentGap
CONSTRAINT Edge
VIEW StateView
CHECK_DEADLOCK FALSE
