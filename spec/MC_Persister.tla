---------------------------- MODULE MC_Persister ----------------------------
(* The store contract as a state machine over operation histories.                                 *)
(*  - MapLike states "behaves like a map plus one control record" over the *history* of calls and  *)
(*    results without referring to Apply; TLC checks it for every history up to MaxOps.            *)
(*  - With VIEW cst (MC_Persister_cover.cfg) the same spec enumerates every (abstract state,       *)
(*    operation) pair once and prints one shortest history reaching it: the transition cover that  *)
(*    the driver replays on the real persisters.                                                   *)
EXTENDS Persister, Json

CONSTANTS Keys, Ids, Vals, MaxOps
VARIABLES cst, hist

COps == [op : {"Put"}, seq : Keys, id : Ids]
   \cup [op : {"Get"}, seq : Keys]
   \cup [op : {"PutCtrl"}, s : Vals, r : Vals]
   \cup [op : {"GetCtrl"}]
   \cup [op : {"Last"}]
   \cup [op : {"Nearest"}, req : Keys, last : Keys]
   \cup [op : {"Range"}, from : Keys, to : Keys]

ContractInit == cst = CInit /\ hist = <<>>
ContractNext == Len(hist) < MaxOps /\ \E o \in COps :
    LET a == Apply(cst, o) IN cst' = a.st /\ hist' = Append(hist, [o |-> o, res |-> a.res])

PutsBefore(i, k) == {j \in 1..(i - 1) : hist[j].o.op = "Put" /\ hist[j].o.seq = k /\ hist[j].res.ret}
StoredBefore(i) == {k \in Keys \ {0} : PutsBefore(i, k) # {}}
IdAt(i, k) == hist[CHOOSE j \in PutsBefore(i, k) : TRUE].o.id
MapLike ==
    \A i \in DOMAIN hist :
        LET o == hist[i].o  r == hist[i].res IN
        /\ o.op = "Get" =>
              IF o.seq = 0 \/ PutsBefore(i, o.seq) = {} THEN ~r.ret
              ELSE r.ret /\ r.id = IdAt(i, o.seq)
        /\ o.op = "Put" => (r.ret <=> (o.seq # 0 /\ PutsBefore(i, o.seq) = {}))
        /\ o.op = "Put" => Cardinality(PutsBefore(i + 1, o.seq)) <= 1
        /\ o.op = "Last" => /\ \A k \in StoredBefore(i) : k <= r.ret
                            /\ r.ret # 0 => r.ret \in StoredBefore(i)
                            /\ r.ret = 0 => StoredBefore(i) = {}
        /\ o.op = "GetCtrl" =>
              LET cs == {j \in 1..(i - 1) : hist[j].o.op = "PutCtrl"} IN
              IF cs = {} THEN ~r.ret
              ELSE LET m == CHOOSE j \in cs : \A q \in cs : q <= j
                   IN r.ret /\ r.s = hist[m].o.s /\ r.r = hist[m].o.r
        /\ o.op = "Nearest" =>
              LET c == {k \in StoredBefore(i) : k >= o.req /\ k <= o.last} IN
              IF c = {} THEN r.ret = 0 ELSE r.ret \in c /\ \A k \in c : r.ret <= k
        /\ o.op = "Range" =>
              LET fin == IF o.to = 0 THEN MaxOf(StoredBefore(i)) ELSE o.to
                  S == {k \in StoredBefore(i) : k >= o.from /\ k <= fin} IN
              /\ \A a \in 1..(Len(r.calls) - 1) : r.calls[a].seq < r.calls[a + 1].seq
              /\ {r.calls[a].seq : a \in DOMAIN r.calls} = S
              /\ \A a \in DOMAIN r.calls : r.calls[a].id = IdAt(i, r.calls[a].seq)
              /\ r.ret = Cardinality(S)

\* behaviour export: every generated successor prints its history (one line per state/op edge)
Edge == PrintT("LEAF " \o ToJson([i \in DOMAIN hist |-> hist[i].o]))
View == cst
=============================================================================
