CONSTANTS
  Keys = {1, 2, 3}
  MaxOps = 5
  MaxCrashes = 3
  Dev = {}
SPECIFICATION Spec
INVARIANT CompletedSurvive
INVARIANT NoAlienBytes
INVARIANT CtrlIsLastCompleted

CHECK_DEADLOCK FALSE
