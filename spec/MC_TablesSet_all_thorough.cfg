CONSTANTS
  Keys = {1, 2, 3, 4, 5}
  Reserves = {0, 1, 2}
  Inits <- InitsNone
  MaxOps = 4
  Dev = {}
INIT Init
NEXT Next
INVARIANT SetLike
CONSTRAINT Edge
CHECK_DEADLOCK FALSE
