CONSTANTS
  Vals = {0, 1, 2, 3, 4, 5}
  Dev = {}
INIT Init
NEXT Next
INVARIANT C10_Idx
INVARIANT C10_Valid
INVARIANT AlgSound
CONSTRAINT Leaf
CHECK_DEADLOCK FALSE
