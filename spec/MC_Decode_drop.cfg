CONSTANTS
  MaxLen = 10
  Lenient = TRUE
  Dev = {"drop_after_unknown"}
INIT Init
NEXT Next
INVARIANT AcceptsExactlyConforming
INVARIANT RetainsAll
CHECK_DEADLOCK FALSE
