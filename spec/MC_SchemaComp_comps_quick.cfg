CONSTANTS
  FieldNums <- Seq3
  CountNums <- Counts2
  MsgTypes <- Msgs1
  AdminTypes = {}
  CompNames <- Comps1
  MaxDepth = 2
  MaxItems = 3
  MaxSteps = 3
  MinSteps = 0
  Pick <- PickAll
  Variants = {}
  Dev = {}
  FieldOptions <- SmallOptions
INIT Init
NEXT Next
INVARIANT Valid
INVARIANT OwnTraits
INVARIANT DistinctDefsDistinctTraits
INVARIANT Export
VIEW View
CHECK_DEADLOCK FALSE
