CONSTANTS
  Keys = {0, 1, 2, 3}
  Ids = {11, 12}
  Vals = {1, 2}
  MaxOps = 12
INIT ContractInit
NEXT ContractNext
INVARIANT MapLike
CONSTRAINT Edge
VIEW View
CHECK_DEADLOCK FALSE
