CONSTANTS
  Dev = {}
  H = 30
  MaxSteps = 5
  MaxNow = 150
SPECIFICATION Spec
INVARIANT MonitorAccepts
INVARIANT NoEarlyLogout
CONSTRAINT Edge
VIEW StateView
CHECK_DEADLOCK FALSE
