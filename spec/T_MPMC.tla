------------------------------ MODULE T_MPMC ------------------------------
(* Trace monitor for C30 (the inter-thread queue never loses, duplicates or reorders).              *)
(* Two kinds of executions of the real ff::uMPMC_Ptr_Queue are judged (harness/src/probe_mpmc.cpp): *)
(*                                                                                                  *)
(* mode "ctl" - controlled scheduling: one Step event per atomic step of push/pop (the thread named *)
(*   by a TLC-generated schedule ran from one yield point to the next while all others were parked) *)
(*   with the ticket counters, sequence words and sub-queue lengths read after the step.            *)
(*     Reset{mode,nq,np,nc,npush,npop}  Step{t,at,to,tickP,tickC,seqP,seqC,len,cur,ret,op,ok,val}   *)
(*     Skip{t}  Stuck{steps,labels}  Drain{vals,capped,tickP,tickC}                                 *)
(*   PROPERTY (decides the verdict), stated on what the steps show and nothing else:                *)
(*     - a push has "completed its slot reservation" at the step that advances the producers'       *)
(*       ticket counter; resv = the elements in that order;                                         *)
(*     - the pop that advances the consumers' ticket counter from k must return resv[k+1];          *)
(*       with the final drain (which must return the unclaimed rest of resv in order) this is       *)
(*       "popped exactly once, in reservation order";                                               *)
(*     - a pop may report empty only if the element at the head of the queue (the lowest ticket     *)
(*       no consumer has claimed) has not been fully pushed, i.e. its push has not returned.        *)
(*       (Reading adopted: "ahead of it" = at or before the pop's position in ticket order.  The    *)
(*       stricter "no unclaimed element at all has been fully pushed" is not what a ticket queue    *)
(*       provides: a producer stalled between reservation and publication hides later elements;     *)
(*       MC_MPMC_strict.cfg shows that.)                                                            *)
(*     - every operation terminates when the threads are stepped round-robin (Stuck = rejection).   *)
(*   DESIGN CONFORMANCE (labels only, never a verdict): each Step is compared with StepT of          *)
(*   MPMC.tla applied to the monitor's copy of the design state: same yield labels, same counters,  *)
(*   same sequence words, same sub-queue lengths, same return value.                                *)
(*                                                                                                  *)
(* mode "free" - free-running threads, judged on the pop logs alone:                                *)
(*     Reset{mode,np,nc,npush}  Pops{c,items:[[p,k]..]}  FreeEnd{pushed,timeout,hung,tail,capped}   *)
(*   items of one consumer in its program order; [p,k] k>0 = k-th element of producer p; [q,0] = a  *)
(*   run of "empty" results, q=1 if one of them began after every producer had finished; [0,-1] =   *)
(*   a value that was never pushed.  Demanded: every pushed element popped exactly once; within one *)
(*   consumer's log the elements of one producer appear in push order (a consumer's own pops are    *)
(*   sequential, so their tickets increase; a producer's tickets increase likewise); an "empty"     *)
(*   that began after all producers finished is never followed by a successful pop of the same      *)
(*   consumer (all reserved tickets were fully pushed then, so the head was).  Nothing is demanded  *)
(*   of empties that overlap a push, nor of the relative order of different consumers' pops: the    *)
(*   log carries no common clock, and those clauses are decided by the ctl executions.              *)
EXTENDS Common, MPMC

VARIABLES l, ms, fails, nexec, labels

EmptyFn == [x \in {} |-> 0]
Ev == TraceLog[l]

MsInit(e) ==
    LET c == [nq |-> e.nq, np |-> e.np, nc |-> e.nc, npush |-> e.npush, npop |-> e.npop, dev |-> {}] IN
    [mode |-> e.mode, c |-> c, s |-> IF e.mode = "ctl" THEN MInit(c) ELSE [x |-> 0], conf |-> e.mode = "ctl",
     resv |-> <<>>, returned |-> {}, popped |-> {}, claim |-> [t \in MThreads(c) |-> -1],
     pP |-> 0, pC |-> 0, dead |-> FALSE,
     fall |-> {}, fcount |-> 0]
MsNone == [mode |-> "none", dead |-> TRUE]

SeqRange(s) == { s[i] : i \in DOMAIN s }
Zero(f, c) == [i \in 1..c.nq |-> f[i - 1]]     \* function on 0..nq-1 -> tuple, to compare with a JSON array

\* ---- design conformance of one Step (label only) ------------------------------------------------
Conforms(m, e) ==
    LET s2 == StepT(m.c, m.s, e.t) IN
    /\ e.t \in MThreads(m.c)
    /\ m.s.pc[e.t] = e.at /\ s2.pc[e.t] = e.to
    /\ s2.tickP = e.tickP /\ s2.tickC = e.tickC
    /\ Zero(s2.seqP, m.c) = e.seqP /\ Zero(s2.seqC, m.c) = e.seqC
    /\ [i \in 1..m.c.nq |-> Len(s2.sub[i - 1])] = e.len
    /\ IF s2.out.op = "none" THEN ~e.ret
       ELSE /\ e.ret /\ e.op = s2.out.op
            /\ s2.out.op = "pop" => (e.ok = s2.out.ok /\ (e.ok => e.val = s2.out.val))
            /\ s2.out.op = "push" => (e.ok /\ e.val = s2.out.val)

\* ---- the property on one ctl Step ---------------------------------------------------------------
\* result: [ok, why, m]
CtlStep(m, e) ==
    LET dP == e.tickP - m.pP
        dC == e.tickC - m.pC
        isP == e.t <= m.c.np
        counters_ok == /\ dP \in {0, 1} /\ dC \in {0, 1}
                       /\ dP = 1 => isP
                       /\ dC = 1 => ~isP
        resv2 == IF dP = 1 /\ isP THEN Append(m.resv, e.cur) ELSE m.resv
        claim1 == IF dC = 1 /\ ~isP /\ e.t \in DOMAIN m.claim THEN [m.claim EXCEPT ![e.t] = m.pC] ELSE m.claim
        isPop == e.ret /\ e.op = "pop"
        k == IF e.t \in DOMAIN claim1 THEN claim1[e.t] ELSE -1
        expected == IF k >= 0 /\ k + 1 <= Len(resv2) THEN resv2[k + 1] ELSE 0
        popok == isPop /\ e.ok
        why == IF ~counters_ok THEN "ticket_counter"
               ELSE IF popok /\ e.val # expected THEN
                    (IF e.val \in m.popped THEN "duplicate"
                     ELSE IF e.val \notin SeqRange(resv2) THEN "alien"
                     ELSE IF k < 0 THEN "pop_without_claim" ELSE "order")
               ELSE IF isPop /\ ~e.ok /\ m.pC + 1 <= Len(m.resv) /\ m.resv[m.pC + 1] \in m.returned
                    THEN "empty_head_fully_pushed"
               ELSE ""
        m2 == [m EXCEPT !.resv = resv2,
                        !.claim = IF popok /\ e.t \in DOMAIN claim1 THEN [claim1 EXCEPT ![e.t] = -1] ELSE claim1,
                        !.returned = IF e.ret /\ e.op = "push" THEN m.returned \cup {e.val} ELSE m.returned,
                        !.popped = IF popok THEN m.popped \cup {e.val} ELSE m.popped,
                        !.pP = e.tickP, !.pC = e.tickC]
    IN [ok |-> why = "", why |-> why, m |-> m2]

CtlDrain(m, e) ==
    LET rest == SubSeq(m.resv, m.pC + 1, Len(m.resv))
        total == m.c.np * m.c.npush
        why == IF e.capped THEN "drain_unbounded"
               ELSE IF Len(m.resv) # total \/ Cardinality(m.returned) # total THEN "push_incomplete"
               ELSE IF e.vals = rest THEN ""
               ELSE IF \E i \in DOMAIN e.vals : e.vals[i] \in m.popped THEN "duplicate"
               ELSE IF \E i, j \in DOMAIN e.vals : i # j /\ e.vals[i] = e.vals[j] THEN "duplicate"
               ELSE IF \E i \in DOMAIN e.vals : e.vals[i] \notin SeqRange(m.resv) THEN "alien"
               ELSE IF SeqRange(e.vals) # SeqRange(rest) THEN "lost"
               ELSE "order"
    IN [ok |-> why = "", why |-> why, m |-> [m EXCEPT !.dead = TRUE]]

\* ---- free-running logs --------------------------------------------------------------------------
OfProd(items, p) == SelectSeq(items, LAMBDA x : x[1] = p /\ x[2] > 0)
Increasing(s) == \A i \in 1..(Len(s) - 1) : s[i][2] < s[i + 1][2]
FreePops(m, e) ==
    LET it == e.items
        good == { it[i] : i \in { j \in DOMAIN it : it[j][2] > 0 } }
        ngood == Cardinality({ j \in DOMAIN it : it[j][2] > 0 })
        qe == { i \in DOMAIN it : it[i][2] = 0 /\ it[i][1] = 1 }
        why == IF \E i \in DOMAIN it : it[i][2] < 0 THEN "alien"
               ELSE IF \E p \in 1..m.c.np : ~Increasing(OfProd(it, p)) THEN "producer_order"
               ELSE IF \E i \in qe : \E j \in DOMAIN it : j > i /\ it[j][2] > 0 THEN "empty_after_quiesce"
               ELSE ""
    IN [ok |-> why = "", why |-> why,
        m |-> [m EXCEPT !.fall = m.fall \cup good, !.fcount = m.fcount + ngood]]
FreeEnd(m, e) ==
    LET total == m.c.np * m.c.npush
        why == IF e.hung THEN "no_progress"
               ELSE IF Cardinality(m.fall) # m.fcount THEN "duplicate"
               ELSE IF e.tail # <<>> \/ e.capped THEN "extra_in_queue"
               ELSE IF e.timeout \/ m.fcount # total THEN "lost"
               ELSE IF m.fall # { <<p, k>> : p \in 1..m.c.np, k \in 1..m.c.npush } THEN "alien"
               ELSE ""
    IN [ok |-> why = "", why |-> why, m |-> [m EXCEPT !.dead = TRUE]]

\* ---- one monitor step ---------------------------------------------------------------------------
Bump(b, k) == IF k = "" THEN b ELSE IF k \in DOMAIN b THEN [b EXCEPT ![k] = @ + 1] ELSE (k :> 1) @@ b

MonStep(m, e) ==
    IF e.e = "Reset" THEN [ok |-> TRUE, why |-> "", m |-> MsInit(e), lab |-> ""]
    ELSE IF m.dead THEN [ok |-> TRUE, why |-> "", m |-> m, lab |-> ""]
    ELSE IF m.mode = "ctl" /\ e.e = "Step" THEN
        LET r == CtlStep(m, e)
            c2 == m.conf /\ Conforms(m, e)
            s2 == IF c2 THEN StepT(m.c, m.s, e.t) ELSE m.s
        IN [ok |-> r.ok, why |-> r.why, m |-> [r.m EXCEPT !.conf = c2, !.s = s2],
            lab |-> IF c2 THEN "conform:" \o e.at ELSE IF m.conf THEN "diverged:" \o e.at ELSE "after_divergence"]
    ELSE IF e.e = "Stuck" THEN
        [ok |-> FALSE, why |-> "no_progress", m |-> [m EXCEPT !.dead = TRUE], lab |-> ""]
    ELSE IF m.mode = "ctl" /\ e.e = "Drain" THEN
        LET r == CtlDrain(m, e) IN [ok |-> r.ok, why |-> r.why, m |-> r.m, lab |-> ""]
    ELSE IF m.mode = "free" /\ e.e = "Pops" THEN
        LET r == FreePops(m, e) IN [ok |-> r.ok, why |-> r.why, m |-> r.m, lab |-> ""]
    ELSE IF m.mode = "free" /\ e.e = "FreeEnd" THEN
        LET r == FreeEnd(m, e) IN [ok |-> r.ok, why |-> r.why, m |-> r.m, lab |-> ""]
    ELSE [ok |-> TRUE, why |-> "", m |-> m, lab |-> ""]

Init == l = 1 /\ ms = MsNone /\ fails = <<>> /\ nexec = 0 /\ labels = EmptyFn
Next ==
    \/ /\ l <= NLines
       /\ LET r == MonStep(ms, Ev) IN
          /\ ms' = r.m
          /\ fails' = IF r.ok THEN fails
                      ELSE Append(fails, [line |-> l, exec |-> nexec, why |-> r.why,
                                          sig |-> ms.mode \o ":unexplained:" \o r.why])
          /\ labels' = Bump(labels, r.lab)
       /\ nexec' = IF Ev.e = "Reset" THEN nexec + 1 ELSE nexec
       /\ l' = l + 1
    \/ /\ l = NLines + 1
       /\ WriteVerdictL(l - 1, fails, nexec, labels)
       /\ l' = l + 1
       /\ UNCHANGED <<ms, fails, nexec, labels>>
=============================================================================
