CONSTANTS
  MaxLen = 10
  Lenient = FALSE
  Dev = {"count_unchecked"}
INIT Init
NEXT Next
INVARIANT AcceptsExactlyConforming
INVARIANT RetainsAll
CHECK_DEADLOCK FALSE
