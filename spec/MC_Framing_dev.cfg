CONSTANTS
  Msgs <- MsgsValid
  P = 3
  C = 2
  Dev = {"short_read"}
SPECIFICATION Spec
INVARIANT PrefixOK
INVARIANT Complete
VIEW StateView
CHECK_DEADLOCK FALSE
