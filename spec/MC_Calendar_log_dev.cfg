CONSTANTS
 Dev = {"log_seconds_round_to_60"}
 Family = "log"
INIT Init
NEXT Next
CHECK_DEADLOCK FALSE
INVARIANTS LogOk
