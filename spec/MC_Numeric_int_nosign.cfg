CONSTANTS
 Dev = {"atoi_no_sign"}
 Family = "int"
 KStep = 1
 WTop = {}
 ExportStep = 64
INIT Init
NEXT Next
CHECK_DEADLOCK FALSE
INVARIANTS AtoiInverse
