--------------------------- MODULE SessionStates ---------------------------
(* The session state machine of fix8 (runtime/session.cpp, include/fix8/session.hpp States) at the  *)
(* grain of one call on the session object - the grain at which probe_session logs (pre.st, post.st) *)
(* for every Start / Recv / Send / SendBatch / Tick / Drop / Restart.                                *)
(*                                                                                                  *)
(* The listed properties talk about the state only in places (C19 "ends the session", C22 "returns   *)
(* the session to normal operation", C23 "completes logon"); this module specifies the *whole*       *)
(* machine, so that every recorded step of every session-family execution (C16-C23) is compared      *)
(* with it.  It is used twice:                                                                       *)
(*   MC_SessionStates  TLC explores the machine over abstract inputs and checks design facts about   *)
(*                     it (EstablishedOnlyByLogon, ResendSentOnlyFromContinuous, TerminalUntilStart, *)
(*                     TestRequestNeedsSilence) and that every state the code declares but never     *)
(*                     enters is indeed unreachable;                                                 *)
(*   T_Session         StateLabel(): a conformance label per recorded call (never a verdict: no      *)
(*                     listed property is "the state machine"); the counts are part of the evidence  *)
(*                     and an execution family in which nothing conforms is an infrastructure error. *)
(*                                                                                                  *)
(* A step is described by an abstract input:                                                         *)
(*   [op |-> "Start", role]                                                                          *)
(*   [op |-> "Recv", role, kind, seqrel, dup, ids, persist, ignoreGap, enforce, extra]               *)
(*        kind    "bad" (does not decode) | "A" "0" "1" "2" "3" "4" "5" | "app"                       *)
(*        seqrel  "eq" | "hi" | "lo"   MsgSeqNum against the expected number                          *)
(*                ("4": NewSeqNo against the expected number: "lo" = below)                           *)
(*        dup     PossDupFlag=Y;   late  OrigSendingTime after SendingTime                              *)
(*        ids     CompIDs as the session expects them (an acceptor handling a Logon looks at the       *)
(*                TargetCompID only)                                                                   *)
(*        extra   "badrange" (ResendRequest with Begin = 0 or Begin > End), "refused" (Logon the      *)
(*                acceptor does not accept: client list / authentication), "" otherwise               *)
(*   [op |-> "Tick", silent, pending]   supervision tick; silent = nothing received for > 1.2 H       *)
(*   [op |-> "Send"]  [op |-> "Drop"]  [op |-> "Restart"]                                             *)
(* Next(s, x) is the *set* of states the call may leave the session in (a set because the reader      *)
(* thread may see the connection close during any call: st_session_terminated is always possible).    *)
EXTENDS Naturals, FiniteSets, TLC

StNone == 0       StCont == 1        StTerm == 2         StWaitLogon == 3    StNotLoggedIn == 4
StLogonSent == 5  StLogonRecv == 6   StLogoffSent == 7   StLogoffRecv == 8   StTestReqSent == 9
StSeqResetSent == 10  StSeqResetRecv == 11  StResendSent == 12  StResendRecv == 13
States == 0..13

\* States::is_established
Established(s) == s \notin {StNone, StTerm, StWaitLogon, StNotLoggedIn, StLogonSent}

\* Session::process, f8Exception with force_logoff: Logout is sent (state logoff_sent) only from an established state
ForcedLogoff(s) == IF Established(s) THEN StLogoffSent ELSE s

\* Session::enforce as called by every handler except handle_logon (which has moved to logon_received first)
\* result: "ok" (go on), "dup" (a PossDup below the expected number: go on), "skip" (too high: not handled), or the state it ends in
Enforce(s, x, checkSeq) ==
    IF ~Established(s) THEN [k |-> "ok", s |-> s]
    ELSE IF s # StLogonRecv /\ x.enforce /\ ~x.ids THEN [k |-> "end", s |-> ForcedLogoff(s)]           \* BadCompidId
    ELSE IF ~checkSeq THEN [k |-> "ok", s |-> s]
    ELSE IF x.seqrel = "hi" THEN
         IF s = StCont THEN [k |-> "skip", s |-> StResendSent]                                    \* ResendRequest sent
         ELSE IF x.ignoreGap THEN [k |-> "skip", s |-> s]
         ELSE [k |-> "end", s |-> ForcedLogoff(s)]                                                \* InvalidMsgSequence
    ELSE IF x.seqrel = "lo" /\ ~x.dup THEN [k |-> "end", s |-> ForcedLogoff(s)]                     \* MsgSequenceTooLow
    ELSE IF x.seqrel = "lo" /\ x.late THEN [k |-> "end", s |-> ForcedLogoff(s)]                     \* BadSendingTime
    ELSE [k |-> "ok", s |-> s]

RecvNext(s, x) ==
    CASE x.kind = "bad" -> {s, ForcedLogoff(s)}          \* rejected (state kept) or, for some decode failures, forced logoff
      [] x.kind = "A" ->
            IF s = StCont THEN {StCont}                                                            \* "Already logged on": Reject
            ELSE IF x.enforce /\ ~x.ids THEN {StTerm}
            ELSE IF x.role = "acc" /\ x.extra = "refused" THEN {StTerm}
            \* enforce() in state logon_received; an acceptor compares with the numbers it recovers during this call
            ELSE IF x.role = "acc" THEN {StCont, StLogoffSent}
            ELSE LET r == Enforce(StLogonRecv, x, TRUE) IN
                 IF r.k = "end" THEN {r.s} ELSE {StCont}
      [] x.kind = "4" ->
            LET r == Enforce(s, x, FALSE) IN
            IF r.k = "end" THEN {r.s}
            ELSE IF x.seqrel = "lo" THEN {ForcedLogoff(s)}                                        \* NewSeqNo below the expected number
            ELSE IF s = StResendSent THEN {StCont} ELSE {s}
      \* the handlers call enforce() and ignore what it returns: after a too-high number (ResendRequest sent, or the gap
      \* ignored) they go on from the state enforce() left
      [] x.kind = "2" ->
            LET r == Enforce(s, x, TRUE) IN
            IF r.k = "end" THEN {r.s}
            ELSE IF r.s = StResendRecv \/ x.extra = "badrange" \/ ~x.persist THEN {r.s}
            ELSE {StCont}        \* resend_request_received for the duration of the replay; both persisters end every
                                 \* range retrieval with the "no more records" call, which sets continuous - also when
                                 \* enforce() had just moved to resend_request_sent (that state is lost)
      [] x.kind = "0" ->
            LET r == Enforce(s, x, TRUE) IN
            IF r.k = "end" THEN {r.s}
            ELSE IF r.s = StTestReqSent THEN {StCont} ELSE {r.s}
      [] OTHER ->                                         \* "1" "3" "5" and application messages
            LET r == Enforce(s, x, TRUE) IN {r.s}

Next(s, x) ==
    IF x.op = "Restart" THEN {StNone}                   \* a new session object
    ELSE {StTerm} \cup
    (CASE x.op = "Start" -> {IF x.role = "ini" THEN StLogonSent ELSE StWaitLogon}
       [] x.op \in {"Send", "Drop"} -> {s}
       [] x.op = "Tick" -> IF ~x.silent THEN {s}
                           ELSE IF s = StTestReqSent THEN {StTerm}                                 \* Logout, stop
                           ELSE IF s = StTerm THEN {s} ELSE {StTestReqSent}
       [] x.op = "Recv" -> RecvNext(s, x))

\* states that exist only inside one call (set and left again before it returns), and states the enumeration declares
\* and nothing ever sets
Transient == {StNotLoggedIn, StLogonRecv, StResendRecv}
Unused == {StLogoffRecv, StSeqResetSent, StSeqResetRecv}
NeverEntered == Transient \cup Unused
=============================================================================
