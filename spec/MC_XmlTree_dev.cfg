CONSTANTS
  Dev = {"entity_double_decode"}
  Which = "decorated"
INIT TInit
NEXT TNext
INVARIANT RoundTrip
CHECK_DEADLOCK FALSE
