CONSTANTS
  Dev = {"entity_double_decode"}
  Which = "witness"
INIT TInit
NEXT TNext
INVARIANT RoundTrip
CHECK_DEADLOCK FALSE
