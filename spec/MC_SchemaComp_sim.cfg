CONSTANTS
  FieldNums <- Seq10
  PairNums <- Pairs1
  CountNums <- Counts4
  MsgTypes <- Msgs3
  AdminTypes = {"UC"}
  CompNames <- Comps2
  MaxDepth = 3
  MaxItems = 6
  MaxSteps = 24
  MinSteps = 10
  Pick <- PickOne
  Variants = {"same", "flags", "order", "members", "nested"}
  Dev = {}
  FieldOptions <- FullOptions
INIT Init
NEXT Next
INVARIANT Valid
INVARIANT OwnTraits
INVARIANT DistinctDefsDistinctTraits
INVARIANT Export
CHECK_DEADLOCK FALSE
