CONSTANTS
  Keys = {1, 2, 3}
  MaxOps = 4
  MaxCrashes = 2
  Dev = {}
SPECIFICATION Spec
INVARIANT CompletedSurvive
INVARIANT NoAlienBytes
INVARIANT CtrlIsLastCompleted
CHECK_DEADLOCK FALSE
