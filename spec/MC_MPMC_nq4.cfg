CONSTANTS
  NQ = 4
  NProd = 2
  NCons = 2
  NPush = 2
  NPop = 3
  Dev = {}
INIT InitX
NEXT NextX
INVARIANT PoppedExactlyOnce
INVARIANT TicketOrder
INVARIANT EmptyOnlyIfHeadUnpublished
INVARIANT SubQueueNonEmptyAtPop
INVARIANT SlotExclusive
CHECK_DEADLOCK FALSE
