CONSTANTS
  Keys = {1, 2, 3}
  MaxOps = 4
  MaxCrashes = 2
  Dev = {"idx_before_data"}
SPECIFICATION Spec
INVARIANT CompletedSurvive
INVARIANT NoAlienBytes
INVARIANT CtrlIsLastCompleted
CHECK_DEADLOCK FALSE
