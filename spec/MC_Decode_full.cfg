CONSTANTS
  MaxLen = 10
  Lenient = FALSE
  Dev = {}
INIT Init
NEXT Next
INVARIANT AcceptsExactlyConforming
INVARIANT RetainsAll
CHECK_DEADLOCK FALSE
