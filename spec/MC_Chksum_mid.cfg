CONSTANTS
 Dev = {}
 Family = "mid"
 MaxMid = 10
 MaxTiny = 7
 CarryTail = 1
 CarryLens = {}
INIT Init
NEXT Next
CHECK_DEADLOCK FALSE
INVARIANTS InvResult InvReads InvGhost InvLoop InvTail
