CONSTANTS
  Keys = {1, 2, 3, 4, 5}
  Reserves = {0, 1, 2}
  Inits <- InitsAll
  MaxOps = 9
  Dev = {}
INIT Init
NEXT Next
INVARIANT SetLike
INVARIANT IterValid
CONSTRAINT Edge
VIEW View
CHECK_DEADLOCK FALSE
