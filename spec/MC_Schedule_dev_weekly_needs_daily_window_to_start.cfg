CONSTANTS
  D = 6
  Offs <- OffsZero
  Dev = {"weekly_needs_daily_window_to_start"}
INIT MCInit
NEXT MCNext
INVARIANT Follows
CHECK_DEADLOCK FALSE
