CONSTANTS
  Dev = {"sid_ne_is_and"}
SPECIFICATION Spec
INVARIANT MonitorAccepts
CONSTRAINT Leaf
CHECK_DEADLOCK FALSE
