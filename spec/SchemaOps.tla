------------------------------ MODULE SchemaOps ------------------------------
(* Pure operators shared by the schema-construction design spec (SchemaComp.tla), the collision     *)
(* solver (MC_SchemaHash.tla) and the metadata trace monitor (T_SchemaComp.tla).                    *)
(*                                                                                                  *)
(* Abstract schema (the *meaning* a compiled schema must implement):                                *)
(*   S == [fields : Seq([num, name, type, vals]),     vals: Seq(<<enum text, description>>)         *)
(*         hdr, trl : Seq(Entry),                                                                   *)
(*         msgs  : Seq([mt, name, admin, items : Seq(Entry)]),                                      *)
(*         comps : Seq([name, items : Seq(Entry)])]                                                 *)
(*   Entry == [k, n, r, c, sub]   k = "f": field n, mandatory r                                     *)
(*                                k = "g": repeating group with count field n, members sub          *)
(*                                k = "c": reference to component c (r = its required attribute)    *)
(* Document order is sequence order.                                                                *)
EXTENDS Naturals, Integers, Sequences, FiniteSets, TLC, Bitwise

Range(s) == { s[i] : i \in DOMAIN s }
RECURSIVE SeqCat(_)
SeqCat(ss) == IF ss = <<>> THEN <<>> ELSE Head(ss) \o SeqCat(Tail(ss))

FieldE(n, r) == [k |-> "f", n |-> n, r |-> r, c |-> "", sub |-> <<>>]
GroupE(n, r, sub) == [k |-> "g", n |-> n, r |-> r, c |-> "", sub |-> sub]
CompE(c, r) == [k |-> "c", n |-> 0, r |-> r, c |-> c, sub |-> <<>>]

\* ---- supported field types: name in the schema -> enumerator of the runtime's FieldTrait::FieldType
\* (TZTIMEONLY / TZTIMESTAMP are mapped by f8c but the runtime's Field specialisations neither parse nor
\* print them - "TODO" in field.hpp - so they are not among the supported types)
TypeEnum == [
    INT |-> "int", LENGTH |-> "Length", TAGNUM |-> "TagNum", SEQNUM |-> "SeqNum", NUMINGROUP |-> "NumInGroup",
    DAYOFMONTH |-> "DayOfMonth", FLOAT |-> "float", QTY |-> "Qty", QUANTITY |-> "Qty", PRICE |-> "Price",
    PRICEOFFSET |-> "PriceOffset", AMT |-> "Amt", PERCENTAGE |-> "Percentage", CHAR |-> "char", BOOLEAN |-> "Boolean",
    STRING |-> "string", MULTIPLEVALUECHAR |-> "MultipleCharValue", MULTIPLECHARVALUE |-> "MultipleCharValue",
    MULTIPLESTRINGVALUE |-> "MultipleStringValue", MULTIPLEVALUESTRING |-> "MultipleStringValue",
    COUNTRY |-> "Country", CURRENCY |-> "Currency", EXCHANGE |-> "Exchange", MONTHYEAR |-> "MonthYear",
    UTCTIMESTAMP |-> "UTCTimestamp", UTCTIME |-> "UTCTimeOnly", UTCTIMEONLY |-> "UTCTimeOnly", UTCDATE |-> "UTCDateOnly",
    UTCDATEONLY |-> "UTCDateOnly", LOCALMKTDATE |-> "LocalMktDate", XMLDATA |-> "XMLData", DATA |-> "data",
    PATTERN |-> "pattern", LANGUAGE |-> "Language", TENOR |-> "Tenor", RESERVED100PLUS |-> "Reserved100Plus",
    RESERVED1000PLUS |-> "Reserved1000Plus", RESERVED4000PLUS |-> "Reserved4000Plus"]
IntTypes == {"INT", "LENGTH", "TAGNUM", "SEQNUM", "NUMINGROUP", "DAYOFMONTH"}

\* fields the encoder derives (BeginString, BodyLength, MsgType, CheckSum): the compiler clears their
\* mandatory flag on purpose (the decoder must not demand what the framing code consumes)
DerivedNums == {8, 9, 35, 10}

\* ---- lookups ---------------------------------------------------------------------------------------
HasField(S, n) == \E i \in DOMAIN S.fields : S.fields[i].num = n
FieldDef(S, n) == S.fields[CHOOSE i \in DOMAIN S.fields : S.fields[i].num = n]
HasComp(S, c) == \E i \in DOMAIN S.comps : S.comps[i].name = c
CompItems(S, c) == S.comps[CHOOSE i \in DOMAIN S.comps : S.comps[i].name = c].items
HasMsg(S, mt) == \E i \in DOMAIN S.msgs : S.msgs[i].mt = mt
MsgDef(S, mt) == S.msgs[CHOOSE i \in DOMAIN S.msgs : S.msgs[i].mt = mt]

\* ---- meaning: members of a container after component expansion, in document order ------------------
\* member == [n, m, g, sub]: field number, mandatory (0 no, 1 yes, 2 not determined by the schema format),
\* group flag, members of the group's elements.
\* A component reference with required='N' makes the component's own members optional.  What it means for the
\* members *of a group inside* such a component is not determined by the format (QuickFIX and f8c make them
\* optional inside an element, the natural reading keeps them): flag 2, judged by nobody.
Flag(b, soft) == IF ~b THEN 0 ELSE IF soft THEN 2 ELSE 1
RECURSIVE Flat(_, _, _, _)
Flat(S, items, outer, soft) ==
    IF items = <<>> THEN <<>>
    ELSE LET e == Head(items) IN
         (CASE e.k = "f" -> << [n |-> e.n, m |-> Flag(e.r /\ outer, soft), g |-> FALSE, sub |-> <<>>] >>
            [] e.k = "g" -> << [n |-> e.n, m |-> Flag(e.r /\ outer, soft), g |-> TRUE,
                                sub |-> Flat(S, e.sub, TRUE, soft \/ ~outer)] >>
            [] e.k = "c" -> Flat(S, CompItems(S, e.c), e.r /\ outer, soft))
         \o Flat(S, Tail(items), outer, soft)
Members(S, items) == Flat(S, items, TRUE, FALSE)

Nums(ms) == { ms[i].n : i \in DOMAIN ms }
RECURSIVE AllNumsSeq(_)
AllNumsSeq(ms) == IF ms = <<>> THEN <<>> ELSE <<Head(ms).n>> \o AllNumsSeq(Head(ms).sub) \o AllNumsSeq(Tail(ms))
NoDup(s) == \A i, j \in DOMAIN s : i # j => s[i] # s[j]
SetMax(X) == IF X = {} THEN 0 ELSE CHOOSE x \in X : \A y \in X : y <= x
RECURSIVE DepthOf(_)
DepthOf(ms) == SetMax({ 1 + DepthOf(ms[i].sub) : i \in {j \in DOMAIN ms : ms[j].g} })

\* the container a path of count fields leads to inside a member list (<<>> = the list itself); <<>> marks "no such group"
RECURSIVE Walk(_, _)
Walk(ms, path) ==
    IF path = <<>> THEN [ok |-> TRUE, ms |-> ms]
    ELSE IF \E i \in DOMAIN ms : ms[i].n = Head(path) /\ ms[i].g
         THEN Walk(ms[CHOOSE i \in DOMAIN ms : ms[i].n = Head(path) /\ ms[i].g].sub, Tail(path))
         ELSE [ok |-> FALSE, ms |-> <<>>]

\* every group occurrence below a member list: <<path of count fields, members>>
RECURSIVE GroupOccs(_, _)
GroupOccs(ms, prefix) ==
    UNION { {<<Append(prefix, ms[i].n), ms[i].sub>>} \cup GroupOccs(ms[i].sub, Append(prefix, ms[i].n))
            : i \in {j \in DOMAIN ms : ms[j].g} }

\* all top-level containers of the schema: <<msgtype, members>> ("header"/"trailer" for the two sections)
Containers(S) == {<<"header", Members(S, S.hdr)>>, <<"trailer", Members(S, S.trl)>>}
                 \cup { <<S.msgs[i].mt, Members(S, S.msgs[i].items)>> : i \in DOMAIN S.msgs }
\* every group definition occurring anywhere: <<msgtype, path, members>>
AllGroupOccs(S) == UNION { { <<c[1], o[1], o[2]>> : o \in GroupOccs(c[2], <<>>) } : c \in Containers(S) }
UsedNums(S) == UNION { Range(AllNumsSeq(c[2])) : c \in Containers(S) }

\* ---- validity: the schemas the property quantifies over ---------------------------------------------
RECURSIVE GroupsOk(_)
GroupsOk(ms) == \A i \in DOMAIN ms : ms[i].g => /\ ms[i].sub # <<>>
                                                 /\ ~ms[i].sub[1].g          \* an element starts with a plain field
                                                 /\ GroupsOk(ms[i].sub)
\* a LENGTH field is followed immediately by its DATA field (number + 1), outside repeating groups
PairsOk(S, ms, top) ==
    \A i \in DOMAIN ms :
        LET t == FieldDef(S, ms[i].n).type IN
        /\ (t = "LENGTH" /\ ms[i].n # 9) => /\ top /\ i < Len(ms)
                                           /\ ms[i + 1].n = ms[i].n + 1 /\ FieldDef(S, ms[i + 1].n).type = "DATA"
        /\ t = "DATA" => /\ top /\ i > 1 /\ ms[i - 1].n + 1 = ms[i].n /\ FieldDef(S, ms[i - 1].n).type = "LENGTH"
RECURSIVE PairsOkDeep(_, _, _)
PairsOkDeep(S, ms, top) == PairsOk(S, ms, top) /\ \A i \in DOMAIN ms : ms[i].g => PairsOkDeep(S, ms[i].sub, FALSE)
\* lim: a component may reference only components declared before it (index < lim): no cycles; 0 = any component
CompIdx(S, c) == CHOOSE i \in DOMAIN S.comps : S.comps[i].name = c
RECURSIVE RefsOk(_, _, _)
RefsOk(S, items, lim) ==
    \A i \in DOMAIN items :
        LET e == items[i] IN
        CASE e.k = "f" -> HasField(S, e.n)
          [] e.k = "g" -> HasField(S, e.n) /\ FieldDef(S, e.n).type \in IntTypes /\ RefsOk(S, e.sub, lim)
          [] e.k = "c" -> HasComp(S, e.c) /\ (lim = 0 \/ CompIdx(S, e.c) < lim)
ValidSchema(S) ==
    /\ NoDup([i \in DOMAIN S.fields |-> S.fields[i].num]) /\ NoDup([i \in DOMAIN S.fields |-> S.fields[i].name])
    /\ NoDup([i \in DOMAIN S.msgs |-> S.msgs[i].mt]) /\ NoDup([i \in DOMAIN S.msgs |-> S.msgs[i].name])
    /\ NoDup([i \in DOMAIN S.comps |-> S.comps[i].name])
    /\ \A i \in DOMAIN S.fields : /\ S.fields[i].type \in DOMAIN TypeEnum
                                  /\ S.fields[i].num \in 1..65535
                                  /\ NoDup([j \in DOMAIN S.fields[i].vals |-> S.fields[i].vals[j][1]])
    /\ RefsOk(S, S.hdr, 0) /\ RefsOk(S, S.trl, 0)
    /\ \A i \in DOMAIN S.comps : RefsOk(S, S.comps[i].items, i)
    /\ \A i \in DOMAIN S.msgs : RefsOk(S, S.msgs[i].items, 0)
    \* every message type has an entry among the enumerated values of MsgType (f8c demands it)
    /\ HasField(S, 35) /\ \A i \in DOMAIN S.msgs : \E j \in DOMAIN FieldDef(S, 35).vals : FieldDef(S, 35).vals[j][1] = S.msgs[i].mt
    \* a tag occurs once in a message (header, body with all its groups, trailer)
    /\ \A i \in DOMAIN S.msgs :
          LET b == Members(S, S.msgs[i].items) IN
          /\ NoDup(AllNumsSeq(Members(S, S.hdr)) \o AllNumsSeq(b) \o AllNumsSeq(Members(S, S.trl)))
          /\ GroupsOk(b) /\ PairsOkDeep(S, b, TRUE)

\* ---- the compiler's structural hash (compiler/f8c.cpp group_hash, include/fix8/f8utils.hpp rothash) ----
\* unsigned 32-bit values as pairs of 16-bit halves (TLC integers are signed 32-bit)
H16 == 65536
U(h, l) == [h |-> h, l |-> l]
UOf(n) == U(n \div H16, n % H16)                       \* n < 2^31
UXor(a, b) == U(a.h ^^ b.h, a.l ^^ b.l)
UShr2(a) == U(a.h \div 4, (a.h % 4) * 16384 + a.l \div 4)
UShl5(a) == U(((a.h * 32) % H16) + a.l \div 2048, (a.l * 32) % H16)
UShl13(a) == U(((a.h * 8192) % H16) + a.l \div 8, (a.l * 8192) % H16)
RotK == U(32768, 6145)                                 \* 0x80001801
\* result ^= (result >> 2) ^ (result << 5) ^ (result << 13) ^ value ^ 0x80001801
RotHash(res, v) == UXor(res, UXor(UShr2(res), UXor(UShl5(res), UXor(UShl13(res), UXor(v, RotK)))))
\* the linear part: RotHash(r, v) = Lin(r) ^ v ^ RotK
Lin(r) == UXor(r, UXor(UShr2(r), UXor(UShl5(r), UShl13(r))))

\* ascending sequence of a finite set of numbers
RECURSIVE SortSet(_)
SortSet(X) == IF X = {} THEN <<>> ELSE LET m == CHOOSE x \in X : \A y \in X : x <= y IN <<m>> \o SortSet(X \ {m})
RECURSIVE FoldHash(_, _)
FoldHash(res, vs) == IF vs = <<>> THEN res ELSE FoldHash(RotHash(res, Head(vs)), Tail(vs))
\* group_hash: fold the member numbers in ascending order (the traits live in a set sorted by number), then the
\* hashes of the nested groups in ascending order of their count fields
RECURSIVE GroupHash(_)
GroupHash(ms) ==
    LET nums == SortSet(Nums(ms))
        gs == SortSet({ ms[i].n : i \in {j \in DOMAIN ms : ms[j].g} })
        sub(n) == ms[CHOOSE i \in DOMAIN ms : ms[i].n = n].sub
    IN FoldHash(FoldHash(U(0, 0), [i \in DOMAIN nums |-> UOf(nums[i])]), [i \in DOMAIN gs |-> GroupHash(sub(gs[i]))])

\* ---- group identity -----------------------------------------------------------------------------------
\* what the hash digests: member numbers and, recursively, the nested groups (C14's "different member fields or
\* different nested groups")
RECURSIVE MemberStruct(_)
MemberStruct(ms) == [nums |-> Nums(ms), nested |-> { <<ms[i].n, MemberStruct(ms[i].sub)>> : i \in {j \in DOMAIN ms : ms[j].g} }]
\* flags of value 2 compare equal to anything
RECURSIVE SameDef(_, _)
SameDef(a, b) == /\ Len(a) = Len(b)
                 /\ \A i \in DOMAIN a : /\ a[i].n = b[i].n /\ a[i].g = b[i].g
                                        /\ (a[i].m = b[i].m \/ a[i].m = 2 \/ b[i].m = 2)
                                        /\ SameDef(a[i].sub, b[i].sub)

\* ---- the compiler's group table (compiler/f8c.cpp parse_groups, find_group, generate_group_bodies) ---------------
\* One table of group definitions per count field, keyed by an identity of the definition; every occurrence of a
\* group uses the traits of the *first* definition registered under its key.  Ideal design (D = {}): the key is the
\* definition itself.  Deviations: "flags_order_not_in_identity" (the key digests member numbers and nested groups
\* only), "hash_identity" (the key is the 32-bit rothash of that digest).
Key(D, ms) == IF "hash_identity" \in D THEN GroupHash(ms)
              ELSE IF "flags_order_not_in_identity" \in D THEN MemberStruct(ms)
              ELSE ms
\* registration order: header, trailer, messages in document order; inside a container depth first, a group after
\* its nested groups (parse_groups registers a definition when its nested groups have been parsed)
RECURSIVE RegOf(_)
RegOf(ms) == IF ms = <<>> THEN <<>>
             ELSE (IF Head(ms).g THEN RegOf(Head(ms).sub) \o << [n |-> Head(ms).n, sub |-> Head(ms).sub] >> ELSE <<>>) \o RegOf(Tail(ms))
RegSeq(X) == RegOf(Members(X, X.hdr)) \o RegOf(Members(X, X.trl))
             \o SeqCat([i \in DOMAIN X.msgs |-> RegOf(Members(X, X.msgs[i].items))])
\* The code's table since the repair of the hash-identity defect ("hash_probe"): per count field an open-addressed map
\* from 32-bit key to definition.  A definition starts at its structural hash and moves up one key at a time past
\* every slot held by a *different* definition (same_group = equal definitions); it is entered at the first free slot
\* or shares the equal definition it meets.  "hash_probe_once" is the tempting simplification that looks only once.
UInc(a) == IF a.l = H16 - 1 THEN U((a.h + 1) % H16, 0) ELSE U(a.h, a.l + 1)
RECURSIVE ProbeKey(_, _, _, _, _)
ProbeKey(once, tab, n, ms, k) ==
    IF \E t \in tab : t.n = n /\ t.key = k /\ t.sub # ms
    THEN (IF once THEN UInc(k) ELSE ProbeKey(once, tab, n, ms, UInc(k)))
    ELSE k
RECURSIVE ProbeTab(_, _, _)
ProbeTab(once, reg, i) ==
    IF i = 0 THEN {}
    ELSE LET tab == ProbeTab(once, reg, i - 1)
             k == ProbeKey(once, tab, reg[i].n, reg[i].sub, GroupHash(reg[i].sub))
         IN IF \E t \in tab : t.n = reg[i].n /\ t.key = k THEN tab
            ELSE tab \cup {[n |-> reg[i].n, key |-> k, sub |-> reg[i].sub]}
\* the definition whose traits an occurrence (count field n, members ms) is given
Winner(D, X, n, ms) ==
    LET reg == RegSeq(X) IN
    IF D \cap {"hash_probe", "hash_probe_once"} # {} THEN
        LET once == "hash_probe_once" \in D
            tab == ProbeTab(once, reg, Len(reg))
            k == ProbeKey(once, tab, n, ms, GroupHash(ms))
        IN (CHOOSE t \in tab : t.n = n /\ t.key = k).sub
    ELSE
    LET first == CHOOSE i \in DOMAIN reg : /\ reg[i].n = n /\ Key(D, reg[i].sub) = Key(D, ms)
                                           /\ \A j \in 1..(i - 1) : ~(reg[j].n = n /\ Key(D, reg[j].sub) = Key(D, ms))
    IN reg[first].sub
\* members as the generated code presents them: a group's traits are its winner's, recursively
RECURSIVE Compiled(_, _, _)
Compiled(D, X, ms) == [i \in DOMAIN ms |-> IF ms[i].g THEN [ms[i] EXCEPT !.sub = Compiled(D, X, Winner(D, X, ms[i].n, ms[i].sub))] ELSE ms[i]]

\* C13's group clause: every group occurrence has the members, flags, order and nested groups of its own definition
OwnTraitsOf(D, X) == \A c \in Containers(X) : SameDef(Compiled(D, X, c[2]), c[2])
\* C14: two definitions of one count field that differ in member fields or nested groups never share traits
LastOf(s) == s[Len(s)]
DistinctDefsOf(D, X) ==
    \A o1, o2 \in AllGroupOccs(X) :
        (LastOf(o1[2]) = LastOf(o2[2]) /\ MemberStruct(o1[3]) # MemberStruct(o2[3]))
            => Winner(D, X, LastOf(o1[2]), o1[3]) # Winner(D, X, LastOf(o2[2]), o2[3])
=============================================================================
