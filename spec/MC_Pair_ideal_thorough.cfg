CONSTANTS
  Dev = {}
  MaxSteps = 16
  MaxSend = 3
  MaxDrops = 2
  MaxRestarts = 2
SPECIFICATION Spec
INVARIANT NoTermination
INVARIANT AllDelivered
INVARIANT FirstInOrder
INVARIANT RedeliveriesFlagged
INVARIANT NoSilentGap
VIEW StateView
CHECK_DEADLOCK FALSE
