------------------------------ MODULE Extract ------------------------------
(* The FIX tokenizer of fix8 and the fixed buffers it writes (properties C03 and C06).            *)
(*                                                                                                *)
(* Part B (bounds, C03).  MessageBase::extract_element(from, sz, tag, val) copies the digits of   *)
(* the tag into `tag` and the bytes up to SOH into `val`; the callers pass stack buffers:         *)
(*    extract_header   field 1: tag[32] val[2048]   field 2: tag[32] len[32]   field 3: tag[32]    *)
(*                     mtype[32]          (MAX_MSGTYPE_FIELD_LEN = 32, FIX8_MAX_FLD_LENGTH = 2048) *)
(*    decode / decode_group             : tag[2048] val[2048]                                      *)
(*    Message::encode(f8String&)        : output[8192 + 32], message written from offset 32,       *)
(*                                        then "10=xxx" SOH NUL                                    *)
(* An input is a sequence of field *shapes* [tl, vl, eq, soh] (tag digits, value bytes, has '=',  *)
(* has SOH); lengths range over boundary classes round every capacity.  The bounded design stops  *)
(* copying one byte before the end of a buffer and reports a malformed field; WritesInBounds      *)
(* holds for it.  Deviations = what the code does: "unbounded_tag", "unbounded_val" (no limit in   *)
(* extract_element), "unbounded_encode" (no limit in Message::encode).  With them TLC returns the *)
(* minimal overflowing inputs.  Every explored input shape is exported and fed to the real        *)
(* Message::factory under ASan (lib/props/c03.py).                                                *)
(*                                                                                                *)
(* Part D (data fields, C06).  Bytes are symbols: tags "L" (a Length field), "D" (its data field,  *)
(* tag = L + 1), "E" (a data field whose tag is not L + 1), "F" (ordinary field); "=" ; "S" = SOH; *)
(* "0" = NUL; "x" = any other byte; "n0".."n3" = the decimal text of a length.  Enc renders a      *)
(* token list, Tok is the tokenizer: after a Length field the paired data field takes exactly     *)
(* that many bytes.  DataOpaque: Tok(Enc(t)) = t for every content.  Deviations: "group_no_length" *)
(* (decode_group splits at SOH only), "data_nul_truncates" (the value is handed on as a C string), *)
(* "data_tag_plus1_only" (pairing recognised only if data tag = length tag + 1).                   *)
EXTENDS Naturals, Integers, Sequences, FiniteSets, TLC, Json

CONSTANTS Dev, Lens, MaxFields

\* ---------------------------------------------------------------------------- part B: bounds
VARIABLES input, writes, outcome, toks, inGroup

TagCapHdr == 32
FldCap == 2048
EncCap == 8192 + 32
EncOffset == 32
EncTail == 8               \* "10=xxx" SOH and the terminating NUL

\* capacities of (tag buffer, value buffer) at the i-th extract call of the factory
Caps(i) == IF i = 1 THEN <<TagCapHdr, FldCap>> ELSE IF i \in {2, 3} THEN <<TagCapHdr, TagCapHdr>> ELSE <<FldCap, FldCap>>

Nominal == [tl |-> 2, vl |-> 3, eq |-> TRUE, soh |-> TRUE]
Shapes == [tl : Lens, vl : {3}, eq : BOOLEAN, soh : BOOLEAN] \cup [tl : {2}, vl : Lens, eq : BOOLEAN, soh : BOOLEAN] \cup {Nominal}
Odd(sh) == sh # Nominal

\* bytes written into a buffer of capacity cap when n bytes are to be copied followed by a NUL
Written(n, cap, unbounded) == IF unbounded \/ n + 1 <= cap THEN n + 1 ELSE cap
\* the bounded design refuses what does not fit
Fits(n, cap) == n + 1 <= cap

Extract(i, sh) ==
    LET caps == Caps(i)
        wt == Written(sh.tl, caps[1], "unbounded_tag" \in Dev)
        wv == IF sh.eq THEN Written(sh.vl, caps[2], "unbounded_val" \in Dev) ELSE 1
        good == sh.eq /\ sh.soh /\ ("unbounded_tag" \in Dev \/ Fits(sh.tl, caps[1]))
                                /\ ("unbounded_val" \in Dev \/ Fits(sh.vl, caps[2]))
    IN [w |-> <<[site |-> i, buf |-> "tag", n |-> wt, cap |-> caps[1]], [site |-> i, buf |-> "val", n |-> wv, cap |-> caps[2]]>>,
        ok |-> good]

InitB == input = <<>> /\ writes = <<>> /\ outcome = "run" /\ toks = <<>> /\ inGroup = FALSE
NextField ==
    /\ outcome = "run" /\ Len(input) < MaxFields
    /\ \E sh \in Shapes :
        /\ Odd(sh) => \A j \in DOMAIN input : ~Odd(input[j])          \* at most one odd field per input
        /\ LET r == Extract(Len(input) + 1, sh) IN
           /\ input' = Append(input, sh)
           /\ writes' = writes \o r.w
           /\ outcome' = IF r.ok THEN "run" ELSE "invalid"
\* encoding a message whose header + body + trailer (without CheckSum) take n bytes
EncLens == {100, 8183, 8184, 8185, 8192, 8193, 12000}
Encode ==
    /\ outcome = "run" /\ input = <<>>
    /\ \E n \in EncLens :
        LET need == EncOffset + n + EncTail IN
        /\ input' = <<[enc |-> n]>>
        /\ writes' = <<[site |-> 0, buf |-> "output", cap |-> EncCap,
                        n |-> IF "unbounded_encode" \in Dev \/ need <= EncCap THEN need ELSE EncCap]>>
        /\ outcome' = IF "unbounded_encode" \in Dev \/ need <= EncCap THEN "encoded" ELSE "throws"
NextB == (NextField \/ Encode) /\ UNCHANGED <<toks, inGroup>>

WritesInBounds == \A i \in DOMAIN writes : writes[i].n <= writes[i].cap
Reach_BigValueAccepted == ~(outcome = "run" /\ \E j \in DOMAIN input : input[j].vl = 2047 /\ j > 3)

LeafB == PrintT("LEAF " \o ToJson([input |-> input, outcome |-> outcome]))

\* ---------------------------------------------------------------------------- part D: data fields
Sym == {"S", "=", "0", "x", "1"}
Contents == UNION {[1..n -> Sym] : n \in 0..3}
LenSym(n) == <<"n0", "n1", "n2", "n3">>[n + 1]
NumOf(s) == CASE s = "n0" -> 0 [] s = "n1" -> 1 [] s = "n2" -> 2 [] s = "n3" -> 3 [] OTHER -> -1

RECURSIVE Enc(_)
Enc(ts) == IF ts = <<>> THEN <<>> ELSE <<ts[1].tag, "=">> \o ts[1].val \o <<"S">> \o Enc(Tail(ts))

IndexOf(b, s, from) == IF \E i \in from..Len(b) : b[i] = s
                       THEN CHOOSE i \in from..Len(b) : b[i] = s /\ \A j \in from..(i - 1) : b[j] # s
                       ELSE 0
CutNul(v) == LET z == IndexOf(v, "0", 1) IN IF "data_nul_truncates" \in Dev /\ z > 0 THEN SubSeq(v, 1, z - 1) ELSE v
Paired(tag) == IF "data_tag_plus1_only" \in Dev THEN tag = "D" ELSE tag \in {"D", "E"}

\* want = number of bytes the next (data) field takes, -1 if the previous field was not a Length
RECURSIVE Tok(_, _)
Tok(b, want) ==
    IF b = <<>> THEN <<>>
    ELSE LET tag == b[1]
             fixed == want >= 0 /\ Paired(tag) /\ ~("group_no_length" \in Dev /\ inGroup)
                      /\ Len(b) >= 3 + want /\ b[3 + want] = "S"
             endv == IF fixed THEN 3 + want ELSE IndexOf(b, "S", 3)
         IN IF Len(b) < 3 \/ b[2] # "=" \/ endv = 0 THEN <<[tag |-> "?", val |-> b]>>
            ELSE LET v == SubSeq(b, 3, endv - 1)
                     nw == IF tag = "L" /\ Len(v) = 1 THEN NumOf(v[1]) ELSE -1
                 IN <<[tag |-> tag, val |-> IF tag \in {"D", "E"} THEN CutNul(v) ELSE v]>> \o Tok(SubSeq(b, endv + 1, Len(b)), nw)

InitD == /\ input = <<>> /\ writes = <<>> /\ outcome = "data"
         /\ inGroup \in BOOLEAN
         /\ \E c \in Contents : \E d \in {"D", "E"} :
              toks = <<[tag |-> "L", val |-> <<LenSym(Len(c))>>], [tag |-> d, val |-> c], [tag |-> "F", val |-> <<"x">>]>>
NextD == UNCHANGED <<input, writes, outcome, toks, inGroup>>
DataOpaque == Tok(Enc(toks), -1) = toks
=============================================================================
