CONSTANTS
 Dev = {}
 Family = "dyadic"
 KStep = 64
 WTop = {}
 ExportStep = 64
INIT Init
NEXT Next
CHECK_DEADLOCK FALSE
INVARIANTS NoTieSeen
