CONSTANTS
  MaxEl = 1
  NegInts = FALSE
  Dev = {"pos_by_insertion"}
SPECIFICATION Spec
INVARIANT PositionOrdered
INVARIANT WireWellFormed
INVARIANT RoundTrip
INVARIANT CloneSame
VIEW View
CHECK_DEADLOCK FALSE
