------------------------------ MODULE SendPath ------------------------------
(* Concurrent senders on one session (property C25): Session::send -> Connection::write ->         *)
(* FIXWriter::write.  Threaded model: the caller takes the writer's spin lock and runs              *)
(* Session::send_process itself (read next_send_seq into the header, encode, write to the socket,   *)
(* store under that number, persist the control record, increment).  Pipelined model: the caller    *)
(* pushes the message on the writer's queue and a single writer thread runs send_process.           *)
(* Each statement of send_process that touches shared state is one step, so TLC explores every      *)
(* interleaving of N senders x K messages.                                                          *)
(*   Dev = {}           sequence numbers on the wire are unique and consecutive, every message       *)
(*                      goes out exactly once, the stored copy under a number is that message        *)
(*   Dev = {"no_lock"}  (vacuity guard) send_process without the writer lock                        *)
EXTENDS Naturals, Sequences, FiniteSets, TLC

CONSTANTS Threads, K, Model, Dev      \* Model \in {"threaded", "pipelined"}

VARIABLES pc,      \* per sender: "idle" | "locked" | "numbered" | "written" | "stored" | "done"
          left,    \* per sender: messages still to send
          cur,     \* per sender: [id, seq] being sent
          lock,    \* holder or 0
          ns, wire, store, queue,
          wpc, wcur       \* writer thread (pipelined)

vars == <<pc, left, cur, lock, ns, wire, store, queue, wpc, wcur>>
Id(t, k) == t * 100 + k

Init == /\ pc = [t \in Threads |-> "idle"] /\ left = [t \in Threads |-> K]
        /\ cur = [t \in Threads |-> [id |-> 0, seq |-> 0]] /\ lock = 0
        /\ ns = 1 /\ wire = <<>> /\ store = [q \in {} |-> 0] /\ queue = <<>>
        /\ wpc = "idle" /\ wcur = [id |-> 0, seq |-> 0]

\* ---- threaded model: the sender runs send_process under the lock -------------------------------------
Acquire(t) == /\ Model = "threaded" /\ pc[t] = "idle" /\ left[t] > 0
              /\ ("no_lock" \in Dev \/ lock = 0)
              /\ lock' = IF "no_lock" \in Dev THEN lock ELSE t
              /\ pc' = [pc EXCEPT ![t] = "locked"]
              /\ cur' = [cur EXCEPT ![t] = [id |-> Id(t, K - left[t] + 1), seq |-> 0]]
              /\ UNCHANGED <<left, ns, wire, store, queue, wpc, wcur>>
Number(t) == /\ pc[t] = "locked" /\ cur' = [cur EXCEPT ![t].seq = ns] /\ pc' = [pc EXCEPT ![t] = "numbered"]
             /\ UNCHANGED <<left, lock, ns, wire, store, queue, wpc, wcur>>
Write(t) == /\ pc[t] = "numbered" /\ wire' = Append(wire, cur[t]) /\ pc' = [pc EXCEPT ![t] = "written"]
            /\ UNCHANGED <<left, cur, lock, ns, store, queue, wpc, wcur>>
Store(t) == /\ pc[t] = "written" /\ store' = (ns :> cur[t].id) @@ store     \* _persist->put(_next_send_seq, ...)
            /\ pc' = [pc EXCEPT ![t] = "stored"]
            /\ UNCHANGED <<left, cur, lock, ns, wire, queue, wpc, wcur>>
Incr(t) == /\ pc[t] = "stored" /\ ns' = ns + 1 /\ lock' = IF lock = t THEN 0 ELSE lock
           /\ pc' = [pc EXCEPT ![t] = "idle"] /\ left' = [left EXCEPT ![t] = @ - 1]
           /\ UNCHANGED <<cur, wire, store, queue, wpc, wcur>>

\* ---- pipelined model: push, single writer ----------------------------------------------------------------
Push(t) == /\ Model = "pipelined" /\ pc[t] = "idle" /\ left[t] > 0
           /\ queue' = Append(queue, Id(t, K - left[t] + 1)) /\ left' = [left EXCEPT ![t] = @ - 1]
           /\ UNCHANGED <<pc, cur, lock, ns, wire, store, wpc, wcur>>
WPop == /\ Model = "pipelined" /\ wpc = "idle" /\ queue # <<>>
        /\ wcur' = [id |-> Head(queue), seq |-> ns] /\ queue' = Tail(queue) /\ wpc' = "numbered"
        /\ UNCHANGED <<pc, left, cur, lock, ns, wire, store>>
WWrite == /\ wpc = "numbered" /\ wire' = Append(wire, wcur) /\ wpc' = "written"
          /\ UNCHANGED <<pc, left, cur, lock, ns, store, queue, wcur>>
WStore == /\ wpc = "written" /\ store' = (ns :> wcur.id) @@ store /\ ns' = ns + 1 /\ wpc' = "idle"
          /\ UNCHANGED <<pc, left, cur, lock, wire, queue, wcur>>

Next == (\E t \in Threads : Acquire(t) \/ Number(t) \/ Write(t) \/ Store(t) \/ Incr(t) \/ Push(t)) \/ WPop \/ WWrite \/ WStore
Spec == Init /\ [][Next]_vars

\* ---- C25 ------------------------------------------------------------------------------------------------------
UniqueConsecutive == \A i \in DOMAIN wire : wire[i].seq = i
ExactlyOnce == \A i, j \in DOMAIN wire : i # j => wire[i].id # wire[j].id
StoredIsTransmitted == \A i \in DOMAIN wire : wire[i].seq \in DOMAIN store => 
                          (\E j \in DOMAIN wire : wire[j].seq = wire[i].seq /\ store[wire[i].seq] = wire[j].id)
Done == (\A t \in Threads : left[t] = 0 /\ pc[t] = "idle") /\ queue = <<>> /\ wpc = "idle"
AllSent == Done => (Len(wire) = Cardinality(Threads) * K /\ DOMAIN store = 1..Len(wire)
                    /\ \A i \in DOMAIN wire : store[i] = wire[i].id)
=============================================================================
