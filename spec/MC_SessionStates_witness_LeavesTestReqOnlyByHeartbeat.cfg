SPECIFICATION Spec
INVARIANT LeavesTestReqOnlyByHeartbeat
CHECK_DEADLOCK FALSE
