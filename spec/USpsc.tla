------------------------------- MODULE USpsc -------------------------------
(* The sub-queue of the inter-thread queue: ff::uSWSR_Ptr_Buffer (include/fix8/ff/ubuffer.hpp),     *)
(* the unbounded single-writer/single-reader queue made of bounded rings (SWSR_Ptr_Buffer,          *)
(* buffer.hpp) chained through a BufferPool (`inuse` list + `bufcache` of released rings).          *)
(* MPMC.tla models it as an atomic FIFO; this module is that FIFO at the grain of its shared        *)
(* accesses, one producer and one consumer (exclusivity is MPMC.tla's invariant SlotExclusive).     *)
(*                                                                                                 *)
(*   push(v):  P_avail    buf_w->available()            = slot[buf_w][pw[buf_w]] is NULL            *)
(*             P_getbuf   pool.next_w: t = bufcache.pop() or a freshly allocated ring              *)
(*             P_link                  inuse.push(t)                                               *)
(*             P_setw     buf_w = t                                                                *)
(*             P_put      buf_w->push(v): slot[pw] = v; pw++                                        *)
(*   pop():    C_e1       buf_r->empty()                = slot[buf_r][pr[buf_r]] is NULL            *)
(*             C_cmp      if buf_r == buf_w return false                                           *)
(*             C_e2       buf_r->empty() again  ("we have to check again")                         *)
(*             C_next     tmp = pool.next_r() = inuse.pop() or NULL                                *)
(*             C_reset    pool.release(buf_r): buf_r->reset() (pread = pwrite = 0, slots cleared)  *)
(*             C_cache                         bufcache.push(buf_r) or, when full, free(buf_r)     *)
(*             C_setr     buf_r = tmp                                                              *)
(*             C_pop      buf_r->pop(): empty -> false, else v = slot[pr]; slot[pr] = NULL; pr++    *)
(* Elements are 1..NItems in push order, 0 is NULL.  `inuse` (dynqueue) and `bufcache` (bounded     *)
(* ring) are themselves wait-free single-writer/single-reader containers whose push and pop are    *)
(* one step each.  Sequentially consistent memory.                                                 *)
(*                                                                                                 *)
(* Ghosts: popped (values returned so far), cstart (pushes completed when the current pop call      *)
(* began), bad (step-local breaches), freed (rings given back to the allocator).                    *)
EXTENDS Naturals, Sequences, FiniteSets, TLC

CONSTANTS SegSize,    \* slots per ring
          NSeg,       \* rings the allocator can hand out (bounds the model)
          CacheCap,   \* capacity of bufcache (32 in the code)
          NItems,     \* pushes
          NPops,      \* pop calls
          Dev         \* named deviations: "no_recheck", "cache_before_reset", "recycled_not_linked"

VARIABLES slot, pr, pw, bufr, bufw, inuse, cache, fresh, freed,
          ppc, pnext, pt, cpc, ct, ncalls, popped, cstart, bad

vars == <<slot, pr, pw, bufr, bufw, inuse, cache, fresh, freed, ppc, pnext, pt, cpc, ct, ncalls, popped, cstart, bad>>

Segs == 1..NSeg
Idx == 0..(SegSize - 1)
Pushed == pnext - 1                       \* completed pushes

Init == /\ slot = [s \in Segs |-> [i \in Idx |-> 0]]
        /\ pr = [s \in Segs |-> 0] /\ pw = [s \in Segs |-> 0]
        /\ bufr = 1 /\ bufw = 1 /\ fresh = 2
        /\ inuse = <<>> /\ cache = <<>> /\ freed = {}
        /\ ppc = "P_avail" /\ pnext = 1 /\ pt = 0
        /\ cpc = "C_e1" /\ ct = 0 /\ ncalls = 0
        /\ popped = <<>> /\ cstart = 0 /\ bad = {}

Touch(s) == IF s \in freed THEN {"use_after_free"} ELSE {}

\* ---------------- producer
P_avail == /\ ppc = "P_avail" /\ pnext <= NItems
           /\ ppc' = IF slot[bufw][pw[bufw]] = 0 THEN "P_put" ELSE "P_getbuf"
           /\ bad' = bad \cup Touch(bufw)
           /\ UNCHANGED <<slot, pr, pw, bufr, bufw, inuse, cache, fresh, freed, pnext, pt, cpc, ct, ncalls, popped, cstart>>

P_getbuf == /\ ppc = "P_getbuf"
            /\ IF cache # <<>>
                 THEN /\ pt' = Head(cache) /\ cache' = Tail(cache) /\ UNCHANGED fresh
                      /\ ppc' = IF "recycled_not_linked" \in Dev THEN "P_setw" ELSE "P_link"
                 ELSE /\ fresh <= NSeg      \* the allocator of the bounded model has a ring left
                      /\ pt' = fresh /\ fresh' = fresh + 1 /\ UNCHANGED cache
                      /\ ppc' = "P_link"
            /\ UNCHANGED <<slot, pr, pw, bufr, bufw, inuse, freed, pnext, cpc, ct, ncalls, popped, cstart, bad>>

P_link == /\ ppc = "P_link" /\ inuse' = Append(inuse, pt) /\ ppc' = "P_setw"
          /\ UNCHANGED <<slot, pr, pw, bufr, bufw, cache, fresh, freed, pnext, pt, cpc, ct, ncalls, popped, cstart, bad>>

P_setw == /\ ppc = "P_setw" /\ bufw' = pt /\ ppc' = "P_put"
          /\ UNCHANGED <<slot, pr, pw, bufr, inuse, cache, fresh, freed, pnext, pt, cpc, ct, ncalls, popped, cstart, bad>>

\* SWSR_Ptr_Buffer::push re-tests available(); a full ring here would make uSWSR's push drop the element
P_put == /\ ppc = "P_put"
         /\ LET s == bufw  i == pw[s] IN
              IF slot[s][i] = 0
                THEN /\ slot' = [slot EXCEPT ![s][i] = pnext]
                     /\ pw' = [pw EXCEPT ![s] = (i + 1) % SegSize]
                     /\ bad' = bad \cup Touch(s)
                ELSE /\ bad' = bad \cup {"push_dropped"} /\ UNCHANGED <<slot, pw>>
         /\ pnext' = pnext + 1 /\ ppc' = "P_avail"
         /\ UNCHANGED <<pr, bufr, bufw, inuse, cache, fresh, freed, pt, cpc, ct, ncalls, popped, cstart>>

\* ---------------- consumer
C_e1 == /\ cpc = "C_e1" /\ (NPops = 0 \/ ncalls < NPops)      \* NPops = 0: the consumer polls for ever
        /\ ncalls' = (IF NPops = 0 THEN 0 ELSE ncalls + 1) /\ cstart' = Pushed
        /\ cpc' = IF slot[bufr][pr[bufr]] = 0 THEN "C_cmp" ELSE "C_pop"
        /\ bad' = bad \cup Touch(bufr)
        /\ UNCHANGED <<slot, pr, pw, bufr, bufw, inuse, cache, fresh, freed, ppc, pnext, pt, ct, popped>>

C_cmp == /\ cpc = "C_cmp"
         /\ IF bufr = bufw
              THEN /\ bad' = bad \cup (IF cstart > Len(popped) THEN {"false_while_nonempty"} ELSE {})
                   /\ cpc' = "C_e1"
              ELSE /\ cpc' = (IF "no_recheck" \in Dev THEN "C_next" ELSE "C_e2")
                   /\ UNCHANGED bad
         /\ UNCHANGED <<slot, pr, pw, bufr, bufw, inuse, cache, fresh, freed, ppc, pnext, pt, ct, ncalls, popped, cstart>>

C_e2 == /\ cpc = "C_e2"
        /\ cpc' = IF slot[bufr][pr[bufr]] = 0 THEN "C_next" ELSE "C_pop"
        /\ UNCHANGED <<slot, pr, pw, bufr, bufw, inuse, cache, fresh, freed, ppc, pnext, pt, ct, ncalls, popped, cstart, bad>>

C_next == /\ cpc = "C_next"
          /\ IF inuse = <<>>
               THEN /\ cpc' = "C_pop" /\ UNCHANGED <<inuse, ct>>
               ELSE /\ ct' = Head(inuse) /\ inuse' = Tail(inuse)
                    /\ cpc' = IF "cache_before_reset" \in Dev THEN "C_cache" ELSE "C_reset"
          /\ UNCHANGED <<slot, pr, pw, bufr, bufw, cache, fresh, freed, ppc, pnext, pt, ncalls, popped, cstart, bad>>

Rel == bufr      \* the ring being released

C_reset == /\ cpc = "C_reset"
           /\ slot' = [slot EXCEPT ![Rel] = [i \in Idx |-> 0]]
           /\ pr' = [pr EXCEPT ![Rel] = 0] /\ pw' = [pw EXCEPT ![Rel] = 0]
           /\ cpc' = IF "cache_before_reset" \in Dev THEN "C_setr" ELSE "C_cache"
           /\ bad' = bad \cup (IF \E i \in Idx : slot[Rel][i] # 0 THEN {"reset_discards_elements"} ELSE {})
           /\ UNCHANGED <<bufr, bufw, inuse, cache, fresh, freed, ppc, pnext, pt, ct, ncalls, popped, cstart>>

C_cache == /\ cpc = "C_cache"
           /\ IF Len(cache) < CacheCap
                THEN cache' = Append(cache, Rel) /\ UNCHANGED freed
                ELSE freed' = freed \cup {Rel} /\ UNCHANGED cache
           /\ cpc' = IF "cache_before_reset" \in Dev THEN "C_reset" ELSE "C_setr"
           /\ UNCHANGED <<slot, pr, pw, bufr, bufw, inuse, fresh, ppc, pnext, pt, ct, ncalls, popped, cstart, bad>>

C_setr == /\ cpc = "C_setr" /\ bufr' = ct
          /\ cpc' = "C_pop"
          /\ UNCHANGED <<slot, pr, pw, bufw, inuse, cache, fresh, freed, ppc, pnext, pt, ct, ncalls, popped, cstart, bad>>

C_pop == /\ cpc = "C_pop"
         /\ LET s == bufr  i == pr[s] IN
              IF slot[s][i] = 0
                THEN /\ bad' = bad \cup (IF cstart > Len(popped) THEN {"false_while_nonempty"} ELSE {})
                     /\ UNCHANGED <<slot, pr, popped>>
                ELSE /\ popped' = Append(popped, slot[s][i])
                     /\ slot' = [slot EXCEPT ![s][i] = 0]
                     /\ pr' = [pr EXCEPT ![s] = (i + 1) % SegSize]
                     /\ bad' = bad \cup Touch(s)
         /\ cpc' = "C_e1"
         /\ UNCHANGED <<pw, bufr, bufw, inuse, cache, fresh, freed, ppc, pnext, pt, ct, ncalls, cstart>>

Producer == P_avail \/ P_getbuf \/ P_link \/ P_setw \/ P_put
Consumer == C_e1 \/ C_cmp \/ C_e2 \/ C_next \/ C_reset \/ C_cache \/ C_setr \/ C_pop
Next == Producer \/ Consumer
Spec == Init /\ [][Next]_vars /\ WF_vars(Producer) /\ WF_vars(Consumer)

\* ---------------- properties
\* never loses, duplicates or reorders: what has been popped is the sequence 1..n
Fifo == \A i \in 1..Len(popped) : popped[i] = i
\* pop returns false only if the queue was empty at some moment of the call; a push is never dropped;
\* a released ring holds no element; no ring is touched after it was freed
NoBreach == bad = {}
\* the contents of the chain buf_r, inuse..., read in order, are exactly the elements not yet popped
\* (at the quiescent points of both sides)
ChainOf == <<bufr>> \o inuse
RingSeq(s) == LET n == Cardinality({i \in Idx : slot[s][i] # 0}) IN [k \in 1..n |-> slot[s][(pr[s] + k - 1) % SegSize]]
RECURSIVE Flat(_)
Flat(ch) == IF ch = <<>> THEN <<>> ELSE RingSeq(Head(ch)) \o Flat(Tail(ch))
Quiescent == ppc = "P_avail" /\ cpc = "C_e1"
ChainHoldsRest == Quiescent => Flat(ChainOf) = [k \in 1..(Pushed - Len(popped)) |-> Len(popped) + k]
\* a ring is in at most one place: the chain, the cache, the producer's hand, or freed
RingsDisjoint == /\ \A i, j \in 1..Len(inuse) : i # j => inuse[i] # inuse[j]
                 /\ \A i, j \in 1..Len(cache) : i # j => cache[i] # cache[j]
                 /\ \A i \in 1..Len(cache) : cache[i] # bufw /\ (cpc \notin {"C_setr"} => cache[i] # bufr) /\ cache[i] \notin freed
                 /\ bufw \notin freed
\* liveness: with fair scheduling every element is popped if the consumer keeps calling
AllPopped == <>(Len(popped) = NItems \/ (NPops > 0 /\ ncalls = NPops))
\* witnesses (must be violated: the interesting regions are reachable)
NoRecycle == ~(ppc \in {"P_link", "P_setw"} /\ pt # fresh - 1)
NoFree == freed = {}
NoThreeRings == Len(inuse) < 2
=============================================================================
