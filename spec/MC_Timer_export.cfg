CONSTANTS
  MaxEv = 2
  Delays = {1, 2}
  Steps = {1, 3}
  MaxNow = 5
  MaxRuns = 2
  MaxClr = 1
  Dev = {}
  Slows = {0}
  Export = TRUE
INIT Init
NEXT Next
INVARIANT NoEarlyFire
INVARIANT DueOrder
INVARIANT RepeatSpacing
INVARIANT ClearSilences
CONSTRAINT Edge
VIEW View
CHECK_DEADLOCK FALSE
