CONSTANTS
 Dev = {}
 Family = "carry"
 MaxMid = 11
 MaxTiny = 0
 CarryTail = 1
 CarryLens = {}
INIT Init
NEXT Next
CHECK_DEADLOCK FALSE
INVARIANTS InvResult InvReads InvGhost InvLoop InvTail
