CONSTANTS
  NP = 2
  NLines = 2
  Dev = {"exit_on_stop_flag"}
  Lvls = {TRUE, FALSE}
  TwoPhase = FALSE
  Grain = "stmt"
SPECIFICATION Spec
INVARIANT InvExactlyOnce
INVARIANT InvDisabledAbsent
INVARIANT InvProducerOrder
INVARIANT InvSeqConsecutive
INVARIANT InvRetIffAccepted
INVARIANT InvStopComplete
CHECK_DEADLOCK FALSE
