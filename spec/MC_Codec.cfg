CONSTANTS
  MaxEl = 2
  NegInts = FALSE
  Dev = {}
SPECIFICATION Spec
INVARIANT PositionOrdered
INVARIANT WireWellFormed
INVARIANT RoundTrip
INVARIANT CloneSame
CONSTRAINT Leaf
VIEW View
CHECK_DEADLOCK FALSE
