---------------------------- MODULE SessionMsgs ----------------------------
(* Message / state / event constructors shared by the session design specs (Session.tla,           *)
(* Logon.tla, Heartbeat.tla): the same alphabet the real probe records (probe_session.cpp after    *)
(* lib/session_common.py), so that the monitors of SessionMon.tla run on the designs themselves.   *)
EXTENDS SessionMon

\* session states (numeric codes of FIX8::States::SessionStates)
StNone == 0   StCont == 1   StTerm == 2   StLogonSent == 5   StLogoffSent == 7   StResendSent == 12

\* ---- messages -----------------------------------------------------------------------------------
HashOf(type, seq, id, dup) == 1 + id * 1000 + seq * 10 + (IF dup THEN 1 ELSE 0) + (IF type = "D" THEN 0 ELSE 500000)
Out(type, seq) == [type |-> type, seq |-> seq, possdup |-> FALSE, gapfill |-> FALSE, newseq |-> 0, begin |-> 0,
                   end |-> 0, testreqid |-> "", hbint |-> 0, reset |-> FALSE, refseq |-> 0, sci |-> "INI",
                   tci |-> "ACC", id |-> 0, has_orig |-> FALSE, orig |-> -1, sending |-> 0, len |-> 100,
                   h |-> HashOf(type, seq, 0, FALSE)]
App(seq, id) == [Out("D", seq) EXCEPT !.id = id, !.h = HashOf("D", seq, id, FALSE)]
Dup(seq, id) == [Out("D", seq) EXCEPT !.id = id, !.h = HashOf("D", seq, id, TRUE), !.possdup = TRUE,
                                       !.has_orig = TRUE, !.orig = 0]
GapFill(seq, new) == [Out("4", seq) EXCEPT !.gapfill = TRUE, !.newseq = new]
In(type, seq) == [type |-> type, seq |-> seq, possdup |-> FALSE, has_orig |-> FALSE, orig |-> 0, sending |-> 0,
                  sci |-> "ACC", tci |-> "INI", id |-> 0, valid |-> TRUE, why |-> "", hbint |-> 0,
                  reset |-> FALSE, testreqid |-> "", begin |-> 0, end |-> 0, newseq |-> 0, gapfill |-> FALSE]

\* ---- state ---------------------------------------------------------------------------------------
SInit == [st |-> StNone, ns |-> 1, nr |-> 1, store |-> [x \in {} |-> 0], ctrl |-> <<>>, shutdown |-> FALSE,
          nid |-> 1, npeer |-> 101]

RECURSIVE AscKeys(_)
AscKeys(S) == IF S = {} THEN <<>> ELSE LET k == CHOOSE x \in S : \A y \in S : x <= y IN <<k>> \o AscKeys(S \ {k})
StoredSeq(store) == LET ks == AscKeys(DOMAIN store)
                    IN [i \in DOMAIN ks |-> [seq |-> ks[i], len |-> store[ks[i]].len, h |-> store[ks[i]].h]]
View(t) == [st |-> t.st, ns |-> t.ns, nr |-> t.nr, ctrl |-> t.ctrl, stored |-> StoredSeq(t.store), shutdown |-> t.shutdown]

Event(name, t0, t1, in, out, deliv) ==
    [e |-> name, ret |-> TRUE, in |-> in, out |-> out, delivered |-> deliv, pre |-> View(t0), post |-> View(t1),
     now |-> 0, cfg_send |-> 0, cfg_recv |-> 0, exc |-> "", kind |-> "app"]
=============================================================================
