-------------------------------- MODULE Xml --------------------------------
(* The XML configuration parser of fix8 (runtime/xml.cpp, include/fix8/xml.hpp).  Property C32.          *)
(*                                                                                                        *)
(* Characters are numbers 0..255; strings are sequences of them.                                          *)
(*  1. Trees: what the parser should build.  An element is a record                                       *)
(*        [tag, attrs (set of <<name, value>>), ht (has text), text, hd, decl, kids (sequence)].          *)
(*     Pre(t) lists the elements in document order; FindAll is the meaning of a path lookup.              *)
(*  2. References: Decode(s, Dev) - the ideal decoder replaces each entity / numeric reference once,      *)
(*     left to right; deviation "entity_double_decode" is XmlElement::InplaceXlate as written: it rescans *)
(*     the text it has just produced (`&amp;lt;` -> `&lt;` -> `<`).                                        *)
(*  3. The design: the character-class state machine of XmlElement::XmlElement as an explicit stack       *)
(*     machine (one frame per constructor invocation): Feed(cfg, c, nx) consumes character c knowing the  *)
(*     next one (the code peeks), AtEof finishes the run the way the code does when the stream runs dry.  *)
(*     ParseAttrs is the attribute sub-machine run over the collected attribute text of a tag.            *)
(*     ModelParse(inp, Dev) is the outcome: a tree, or an error kind.                                     *)
(*  4. Serialise(t): the canonical text of a tree (markup characters as entity references).               *)
EXTENDS Naturals, Integers, Sequences, FiniteSets, TLC

LT == 60   GT == 62   SL == 47   QM == 63   EX == 33   DA == 45   EQ == 61   BS == 92   DQ == 34   SQ == 39
AMP == 38  SEMI == 59 HASH == 35 STAR == 42
IsSp(c) == c \in {32, 9, 11, 12}       \* isspace() minus the line ends, which the main loop drops first
IsNl(c) == c \in {10, 13}
IsBlank(c) == c \in {32, 9, 10, 13}    \* find_first_not_of(" \t\n\r")
MaxDepth == 128

\* character classes of the state machine (used to export one input per state x class, see MC_XmlSM)
ClassOf(c) == CASE c = LT -> "lt" [] c = GT -> "gt" [] c = SL -> "slash" [] c = QM -> "qmark" [] c = EX -> "bang"
                [] c = DA -> "dash" [] c = 91 -> "lbracket" [] c = 93 -> "rbracket" [] c = EQ -> "eq"
                [] c \in {DQ, SQ} -> "quote" [] IsSp(c) -> "space" [] IsNl(c) -> "newline"
                [] (c >= 48 /\ c <= 57) \/ (c >= 65 /\ c <= 90) \/ (c >= 97 /\ c <= 122) \/ c \in {95, 58, 46} -> "name"
                [] OTHER -> "other"

Concat(ss) == LET RECURSIVE F(_) F(q) == IF q = <<>> THEN <<>> ELSE Head(q) \o F(Tail(q)) IN F(ss)

\* ---- 1. trees ------------------------------------------------------------------------------------------
Elem(tag, attrs, ht, text, kids) == [tag |-> tag, attrs |-> attrs, ht |-> ht, text |-> text, hd |-> FALSE, decl |-> <<>>, kids |-> kids]

\* elements in document order (1-based position = document-order index + 1), each with the chain of tags
\* and of positions from the root down to it
RECURSIVE Size(_)
Size(t) == LET RECURSIVE K(_) K(i) == IF i > Len(t.kids) THEN 0 ELSE Size(t.kids[i]) + K(i + 1) IN 1 + K(1)
RECURSIVE PreFrom(_, _, _, _)
PreFrom(t, tags, idxs, me) ==
    LET tg == Append(tags, t.tag)
        ix == Append(idxs, me)
        RECURSIVE K(_, _)
        K(i, nxt) == IF i > Len(t.kids) THEN <<>>
                     ELSE PreFrom(t.kids[i], tg, ix, nxt) \o K(i + 1, nxt + Size(t.kids[i]))
    IN <<[el |-> t, chain |-> tg, anc |-> ix]>> \o K(1, me + 1)
Pre(t) == PreFrom(t, <<>>, <<>>, 1)

\* same content: tags, attribute maps, text, child order (declarations are not part of the statement)
RECURSIVE TreeEq(_, _)
TreeEq(a, b) == /\ a.tag = b.tag /\ a.attrs = b.attrs /\ a.ht = b.ht /\ (a.ht => a.text = b.text)
                /\ Len(a.kids) = Len(b.kids)
                /\ \A i \in 1..Len(a.kids) : TreeEq(a.kids[i], b.kids[i])

\* split a path at '/'
RECURSIVE SplitAt(_, _, _)
SplitAt(s, d, cur) == IF s = <<>> THEN <<cur>>
                      ELSE IF Head(s) = d THEN <<cur>> \o SplitAt(Tail(s), d, <<>>)
                      ELSE SplitAt(Tail(s), d, Append(cur, Head(s)))
\* Path lookup called on the element with document-order index `at` (0-based) of the tree with preorder p.
\* "//x/y" starts at the root.  The matching elements are the start element or descendants of it whose chain
\* of tags, from the start element down, spells the path; with an attribute filter the element must also
\* carry name = value.  Result: set of 0-based document-order indices.
FindAll(p, at, path, filt, an, av) ==
    LET rooted == Len(path) >= 2 /\ path[1] = SL /\ path[2] = SL
        comps == SplitAt(IF rooted THEN SubSeq(path, 3, Len(path)) ELSE path, SL, <<>>)
        start == IF rooted THEN 1 ELSE at + 1
        d0 == Len(p[start].anc)
    IN { j - 1 : j \in { k \in 1..Len(p) :
              /\ Len(p[k].anc) >= d0 /\ p[k].anc[d0] = start
              /\ SubSeq(p[k].chain, d0, Len(p[k].chain)) = comps
              /\ (filt => <<an, av>> \in p[k].el.attrs) } }

\* ---- 2. references ------------------------------------------------------------------------------------
EntityTable == {
    <<<<97,109,112>>, 38>>, <<<<108,116>>, 60>>, <<<<103,116>>, 62>>, <<<<97,112,111,115>>, 39>>,
    <<<<113,117,111,116>>, 34>>, <<<<110,98,115,112>>, 160>>, <<<<105,101,120,99,108>>, 161>>,
    <<<<99,101,110,116>>, 162>>, <<<<112,111,117,110,100>>, 163>>,
    <<<<99,117,114,114,101,110>>, 164>>, <<<<121,101,110>>, 165>>, <<<<98,114,118,98,97,114>>, 166>>,
    <<<<115,101,99,116>>, 167>>, <<<<117,109,108>>, 168>>, <<<<99,111,112,121>>, 169>>,
    <<<<111,114,100,102>>, 170>>, <<<<108,97,113,117,111>>, 171>>, <<<<110,111,116>>, 172>>,
    <<<<115,104,121>>, 173>>, <<<<114,101,103>>, 174>>, <<<<109,97,99,114>>, 175>>,
    <<<<100,101,103>>, 176>>, <<<<112,108,117,115,109,110>>, 177>>, <<<<115,117,112,50>>, 178>>,
    <<<<115,117,112,51>>, 179>>, <<<<97,99,117,116,101>>, 180>>, <<<<109,105,99,114,111>>, 181>>,
    <<<<112,97,114,97>>, 182>>, <<<<109,105,100,100,111,116>>, 183>>,
    <<<<99,101,100,105,108>>, 184>>, <<<<115,117,112,49>>, 185>>, <<<<111,114,100,109>>, 186>>,
    <<<<114,97,113,117,111>>, 187>>, <<<<102,114,97,99,49,52>>, 188>>,
    <<<<102,114,97,99,49,50>>, 189>>, <<<<102,114,97,99,51,52>>, 190>>,
    <<<<105,113,117,101,115,116>>, 191>> }
EntityChar(name) == IF \E e \in EntityTable : e[1] = name THEN (CHOOSE e \in EntityTable : e[1] = name)[2]
                    ELSE QM                        \* unknown entity: '?'

IsLower(c) == c >= 97 /\ c <= 122
Is14(c) == c >= 49 /\ c <= 52
IsDec(c) == c >= 48 /\ c <= 57
IsHex(c) == IsDec(c) \/ (c >= 65 /\ c <= 70) \/ (c >= 97 /\ c <= 102)
HexVal(c) == IF IsDec(c) THEN c - 48 ELSE IF c >= 97 THEN c - 87 ELSE c - 55

\* length of the longest run of characters satisfying P starting at position i
RunLen(s, i, P(_)) == LET RECURSIVE R(_) R(j) == IF j <= Len(s) /\ P(s[j]) THEN 1 + R(j + 1) ELSE 0 IN R(i)

\* named reference "&" [a-z]{2,} [1-4]* ";" at position i: its length, or 0
NamedLen(s, i) ==
    IF i > Len(s) \/ s[i] # AMP THEN 0
    ELSE LET a == RunLen(s, i + 1, IsLower)
             b == RunLen(s, i + 1 + a, Is14)
             e == i + 1 + a + b
         IN IF a >= 2 /\ e <= Len(s) /\ s[e] = SEMI THEN e - i + 1 ELSE 0
\* numeric reference "&#" ( "x" hex+ | dec+ ) ";" at position i: its length, or 0
NumLen(s, i) ==
    IF i + 1 > Len(s) \/ s[i] # AMP \/ s[i + 1] # HASH THEN 0
    ELSE IF i + 2 <= Len(s) /\ s[i + 2] = 120
         THEN LET h == RunLen(s, i + 3, IsHex)  e == i + 3 + h
              IN IF h >= 1 /\ e <= Len(s) /\ s[e] = SEMI THEN e - i + 1 ELSE 0
         ELSE LET d == RunLen(s, i + 2, IsDec)  e == i + 2 + d
              IN IF d >= 1 /\ e <= Len(s) /\ s[e] = SEMI THEN e - i + 1 ELSE 0

IntMax == 2147483647
\* value of the digits (istream >> int: saturates at INT_MAX)
RECURSIVE Digits(_, _, _)
Digits(ds, base, acc) ==
    IF ds = <<>> THEN acc
    ELSE LET d == HexVal(Head(ds)) IN
         IF acc > (IntMax - d) \div base THEN IntMax ELSE Digits(Tail(ds), base, acc * base + d)
NumBytes(v) == IF (v \div 256) % 256 # 0 THEN <<(v \div 256) % 256, v % 256>> ELSE <<v % 256>>
NamedChars(s, i, n) == <<EntityChar(SubSeq(s, i + 1, i + n - 2))>>
NumChars(s, i, n) == IF s[i + 2] = 120 THEN NumBytes(Digits(SubSeq(s, i + 3, i + n - 2), 16, 0))
                     ELSE NumBytes(Digits(SubSeq(s, i + 2, i + n - 2), 10, 0))

\* ideal: one pass, what a replacement produces is never looked at again
RECURSIVE DecodeOnce(_, _)
DecodeOnce(s, i) ==
    IF i > Len(s) THEN <<>>
    ELSE LET a == NamedLen(s, i)  b == NumLen(s, i) IN
         IF a > 0 THEN NamedChars(s, i, a) \o DecodeOnce(s, i + a)
         ELSE IF b > 0 THEN NumChars(s, i, b) \o DecodeOnce(s, i + b)
         ELSE <<s[i]>> \o DecodeOnce(s, i + 1)
\* the code: first every named reference (leftmost first, rescanning from the start), then every numeric one
FirstAt(s, L(_, _)) == LET hits == {i \in 1..Len(s) : L(s, i) > 0} IN
                       IF hits = {} THEN 0 ELSE CHOOSE i \in hits : \A j \in hits : i <= j
RECURSIVE RescanNamed(_)
RescanNamed(s) == LET i == FirstAt(s, NamedLen) IN
    IF i = 0 THEN s
    ELSE LET n == NamedLen(s, i) IN RescanNamed(SubSeq(s, 1, i - 1) \o NamedChars(s, i, n) \o SubSeq(s, i + n, Len(s)))
RECURSIVE RescanNum(_)
RescanNum(s) == LET i == FirstAt(s, NumLen) IN
    IF i = 0 THEN s
    ELSE LET n == NumLen(s, i) IN RescanNum(SubSeq(s, 1, i - 1) \o NumChars(s, i, n) \o SubSeq(s, i + n, Len(s)))

Decode(s, Dev) == IF "entity_double_decode" \in Dev THEN RescanNum(RescanNamed(s)) ELSE DecodeOnce(s, 1)

\* the text contains something that reads as a reference (so that decoding it once more changes it)
HasRefShape(s) == \E i \in 1..Len(s) : NamedLen(s, i) > 0 \/ NumLen(s, i) > 0
\* everything that decoding some of the references of s once more, in any order, can turn s into.  Which of
\* them the rescanning decoder produces depends on how the value was written in the document; all of them
\* are the same defect (a decoded character is read again as markup).
ReplaceRefAt(s, i) == LET a == NamedLen(s, i)  b == NumLen(s, i) IN
    IF a > 0 THEN SubSeq(s, 1, i - 1) \o NamedChars(s, i, a) \o SubSeq(s, i + a, Len(s))
    ELSE SubSeq(s, 1, i - 1) \o NumChars(s, i, b) \o SubSeq(s, i + b, Len(s))
RECURSIVE DecodeClosure(_)
DecodeClosure(S) ==
    LET N == S \cup UNION {{ReplaceRefAt(s, i) : i \in {k \in 1..Len(s) : NamedLen(s, k) > 0 \/ NumLen(s, k) > 0}} : s \in S}
    IN IF N = S THEN S ELSE DecodeClosure(N)

\* ---- 3. the design: attribute sub-machine -----------------------------------------------------------------
\* XmlElement::ParseAttrs with the noextensions flag set.  The loop reads while the stream is good, so after the
\* last character the failed read leaves the previous character in place and it is processed once more.
AInit == [st |-> "ews", tag |-> <<>>, val |-> <<>>, com |-> 0, attrs |-> {}, err |-> ""]
AStep(a, c, Dev) ==
    LET sp == IsSp(c) \/ IsNl(c)
        intag(t) ==                    \* case tag: (also reached by falling through from oc0)
            IF sp THEN [a EXCEPT !.st = "es", !.tag = t]
            ELSE IF c = EQ THEN [a EXCEPT !.st = "oq", !.tag = t]
            ELSE IF c \in {DQ, SQ} THEN [a EXCEPT !.err = "illegal_char"]
            ELSE [a EXCEPT !.st = "tag", !.tag = Append(t, c)]
    IN CASE a.st = "ews" -> IF c = SL THEN [a EXCEPT !.st = "oc0"]
                            ELSE IF ~sp THEN [a EXCEPT !.st = "tag", !.tag = Append(a.tag, c)] ELSE a
         [] a.st = "oc0" -> intag(a.tag \o <<SL, c>>)
         [] a.st = "tag" -> intag(a.tag)
         [] a.st = "es" -> IF c = EQ THEN [a EXCEPT !.st = "oq"]
                           ELSE IF c \in {DQ, SQ} THEN [a EXCEPT !.err = "illegal_char"] ELSE a
         [] a.st = "oq" -> IF c \in {DQ, SQ} THEN [a EXCEPT !.st = "value", !.com = c]
                           ELSE IF ~sp THEN [a EXCEPT !.err = "illegal_char"] ELSE a
         [] a.st = "value" ->
               IF c # a.com THEN [a EXCEPT !.val = Append(a.val, c)]
               ELSE IF \E i \in DOMAIN a.tag : a.tag[i] \in {BS, SQ, DQ, EQ} THEN [a EXCEPT !.err = "illegal_char"]
               ELSE IF a.tag = <<100,111,99,112,97,116,104>> THEN [a EXCEPT !.st = "ews", !.tag = <<>>, !.val = <<>>, !.com = 0]
               ELSE IF \E p \in a.attrs : p[1] = a.tag THEN [a EXCEPT !.err = "attr_redefined"]
               ELSE [a EXCEPT !.st = "ews", !.tag = <<>>, !.val = <<>>, !.com = 0,
                              !.attrs = a.attrs \cup {<<a.tag, Decode(a.val, Dev)>>}]
RECURSIVE ARun(_, _, _, _)
ARun(a, s, i, Dev) == IF a.err # "" \/ i > Len(s) THEN a ELSE ARun(AStep(a, s[i], Dev), s, i + 1, Dev)
\* result: [err, attrs]
ParseAttrs(s, Dev) ==
    IF s = <<>> THEN AInit
    ELSE LET a == ARun(AInit, s, 1, Dev) IN IF a.err # "" THEN a ELSE AStep(a, s[Len(s)], Dev)

\* ---- 3. the design: element machine ----------------------------------------------------------------------
\* one frame per XmlElement constructor invocation; c = last character it has read (-1: none yet)
NewFrame(st, c) == [st |-> st, otag |-> <<>>, ctag |-> <<>>, val |-> <<>>, attr |-> <<>>, dec |-> <<>>,
                    ht |-> FALSE, text |-> <<>>, hd |-> FALSE, decl |-> <<>>, kids |-> <<>>, c |-> c]
CInit == [stk |-> <<NewFrame("olb", -1)>>, out |-> "run", kind |-> "", root |-> Elem(<<>>, {}, FALSE, <<>>, <<>>),
          eofpeek |-> FALSE]

Stay(f) == [act |-> "stay", f |-> f, kind |-> ""]
Fail(f, k) == [act |-> "err", f |-> f, kind |-> k]
\* does the code look at the next character while processing c in this state?
Peeks(f, c) == (f.st \in {"otag", "oattr"} /\ c = SL) \/ (f.st = "value" /\ c = LT)

\* one character in the frame at depth d; nx = the next character of the stream, -1 at its end
Step(f, d, c, nx, Dev) ==
    LET sp == IsSp(c)
        closed == IF d > 0 THEN [act |-> "finish", f |-> [f EXCEPT !.st = "finished"], kind |-> ""]
                  ELSE Stay([f EXCEPT !.st = "olb"])
    IN
    CASE f.st = "olb" -> Stay(IF c = LT THEN [f EXCEPT !.st = "otag"] ELSE f)
      [] f.st = "otag" ->
            IF c = GT THEN Stay([f EXCEPT !.st = "value"])
            ELSE IF c = SL /\ nx = GT THEN Stay([f EXCEPT !.st = "ctag", !.ctag = f.otag])
            ELSE IF sp /\ f.otag # <<>> THEN Stay([f EXCEPT !.st = "oattr"])
            ELSE IF c = QM /\ f.otag = <<>> THEN Stay([f EXCEPT !.st = "odec"])
            ELSE IF c = EX /\ f.otag = <<>> THEN Stay([f EXCEPT !.st = "ocom0"])
            ELSE IF c \in {EQ, BS, DQ, SQ} THEN Fail(f, "unmatched_tag")
            ELSE IF ~sp THEN Stay([f EXCEPT !.otag = Append(f.otag, c)])
            ELSE Stay(f)
      [] f.st = "ocom0" -> IF c = DA THEN Stay([f EXCEPT !.st = "ocom1"])
                           ELSE Stay([f EXCEPT !.st = "otag", !.otag = Append(f.otag, EX)])
      [] f.st = "ocom1" -> IF c = DA THEN Stay([f EXCEPT !.st = "comment"])
                           ELSE Stay([f EXCEPT !.st = "otag", !.otag = f.otag \o <<EX, DA>>])
      [] f.st = "odec" -> IF c = QM THEN Stay([f EXCEPT !.st = "cdec", !.hd = (f.dec # <<>>) \/ f.hd,
                                                        !.decl = IF f.dec # <<>> THEN f.dec ELSE f.decl])
                          ELSE Stay([f EXCEPT !.dec = Append(f.dec, c)])
      [] f.st = "oattr" -> IF c = SL /\ nx = GT THEN Stay([f EXCEPT !.st = "ctag", !.ctag = f.otag])
                           ELSE IF c = GT THEN Stay([f EXCEPT !.st = "value"])
                           ELSE Stay([f EXCEPT !.attr = Append(f.attr, c)])
      [] f.st = "comment" -> Stay(IF c = DA THEN [f EXCEPT !.st = "ccom0"] ELSE f)
      [] f.st = "ccom0" -> Stay([f EXCEPT !.st = IF c = DA THEN "ccomment" ELSE "comment"])
      [] f.st = "ccomment" -> IF c = GT THEN closed ELSE Stay([f EXCEPT !.st = "comment"])
      [] f.st = "cdec" -> IF c = GT THEN closed ELSE Stay(f)
      [] f.st = "value" -> IF c = LT THEN (IF nx # SL THEN [act |-> "push", f |-> f, kind |-> ""]
                                           ELSE Stay([f EXCEPT !.st = "cls"]))
                           ELSE Stay([f EXCEPT !.val = Append(f.val, c)])
      [] f.st = "cls" -> Stay(IF c = SL THEN [f EXCEPT !.st = "ctag"] ELSE f)
      [] f.st = "ctag" ->
            IF c = GT THEN
                IF f.otag # f.ctag THEN Fail(f, "unmatched_tag")
                ELSE IF f.otag = <<120,105,58,105,110,99,108,117,100,101>> THEN Fail(f, "include_not_modelled")
                ELSE [act |-> "finish", kind |-> "",
                      f |-> [f EXCEPT !.st = "closed",
                                      !.ht = \E i \in DOMAIN f.val : ~IsBlank(f.val[i]),
                                      !.text = IF \E i \in DOMAIN f.val : ~IsBlank(f.val[i]) THEN Decode(f.val, Dev) ELSE <<>>]]
            ELSE IF ~sp THEN Stay([f EXCEPT !.ctag = Append(f.ctag, c)])
            ELSE Stay(f)

\* the element a frame has built (tag is set only when its closing tag was seen)
FrameElem(f, attrs) == [tag |-> IF f.st = "closed" THEN f.otag ELSE <<>>, attrs |-> attrs, ht |-> f.ht, text |-> f.text,
                        hd |-> f.hd, decl |-> f.decl, kids |-> f.kids]

Thrown(cfg, k) == [cfg EXCEPT !.out = "exc", !.kind = k]

\* the innermost frame has left its loop: its attribute text is parsed; the element goes to its parent
\* (dropped if it has no tag: comments, declarations, anything unfinished) or becomes the result
Close(cfg, Dev) ==
    LET n == Len(cfg.stk)
        f == cfg.stk[n]
        pa == ParseAttrs(f.attr, Dev)
        el == FrameElem(f, pa.attrs)
    IN IF pa.err # "" THEN Thrown(cfg, pa.err)
       ELSE IF n = 1 THEN [cfg EXCEPT !.out = "done", !.root = el]
       ELSE LET par == cfg.stk[n - 1]
                par2 == IF el.tag # <<>> THEN [par EXCEPT !.kids = Append(par.kids, el)] ELSE par
            IN [cfg EXCEPT !.stk = Append(SubSeq(cfg.stk, 1, n - 2), par2)]

Feed(cfg, c, nx, Dev) ==
    IF cfg.out # "run" THEN cfg
    ELSE LET n == Len(cfg.stk)
             f == [cfg.stk[n] EXCEPT !.c = c]
             top(g) == [cfg EXCEPT !.stk = Append(SubSeq(cfg.stk, 1, n - 1), g), !.eofpeek = Peeks(f, c) /\ nx = -1]
         IN IF IsNl(c) THEN [top(f) EXCEPT !.eofpeek = FALSE]
            ELSE LET r == Step(f, n - 1, c, nx, Dev) IN
                 CASE r.act = "err" -> Thrown(cfg, r.kind)
                   [] r.act = "stay" -> top(r.f)
                   [] r.act = "push" -> IF n > MaxDepth THEN Thrown(cfg, "max_depth")
                                        ELSE LET q == top(r.f) IN [q EXCEPT !.stk = Append(q.stk, NewFrame("otag", LT))]
                   [] r.act = "finish" -> Close(top(r.f), Dev)

RECURSIVE FeedAll(_, _, _, _)
FeedAll(cfg, inp, i, Dev) ==
    IF i > Len(inp) THEN cfg
    ELSE FeedAll(Feed(cfg, inp[i], IF i < Len(inp) THEN inp[i + 1] ELSE -1, Dev), inp, i + 1, Dev)

\* The stream has run dry.  If that was noticed by a failed read (not by a peek), the reading frame processes
\* its previous character once more (a stale '<' in a value only constructs and drops an empty child).  Then
\* every open constructor leaves its loop, innermost first, each parsing its attribute text.
RECURSIVE Unwind(_, _)
Unwind(cfg, Dev) == IF cfg.out # "run" THEN cfg ELSE Unwind(Close(cfg, Dev), Dev)
AtEof(cfg, Dev) ==
    IF cfg.out # "run" THEN cfg
    ELSE LET n == Len(cfg.stk)
             f == cfg.stk[n]
             stale == ~cfg.eofpeek /\ f.c # -1 /\ ~IsNl(f.c) /\ ~(f.st = "value" /\ f.c = LT)
             r == Step(f, n - 1, f.c, -1, Dev)
             cfg2 == IF stale /\ r.act = "stay" THEN [cfg EXCEPT !.stk = Append(SubSeq(cfg.stk, 1, n - 1), r.f)] ELSE cfg
         IN IF stale /\ r.act = "err" THEN Thrown(cfg, r.kind) ELSE Unwind(cfg2, Dev)

\* [out: "tree" | "exc", kind, tree]
ModelParse(inp, Dev) ==
    LET c == AtEof(FeedAll(CInit, inp, 1, Dev), Dev)
    IN [out |-> IF c.out = "done" THEN "tree" ELSE "exc", kind |-> c.kind, tree |-> c.root]

\* ---- 4. canonical text of a tree ----------------------------------------------------------------------------
Esc(s) == Concat([i \in DOMAIN s |->
              CASE s[i] = AMP -> <<38,97,109,112,59>> [] s[i] = LT -> <<38,108,116,59>> [] s[i] = GT -> <<38,103,116,59>>
                [] s[i] = DQ -> <<38,113,117,111,116,59>> [] s[i] = SQ -> <<38,97,112,111,115,59>> [] OTHER -> <<s[i]>>])
\* attributes in some fixed order (any order gives the same map)
RECURSIVE AttrText(_)
AttrText(A) == IF A = {} THEN <<>>
               ELSE LET p == CHOOSE q \in A : TRUE IN <<32>> \o p[1] \o <<EQ, DQ>> \o Esc(p[2]) \o <<DQ>> \o AttrText(A \ {p})
RECURSIVE Serialise(_)
Serialise(t) ==
    <<LT>> \o t.tag \o AttrText(t.attrs) \o
    (IF ~t.ht /\ t.kids = <<>> THEN <<SL, GT>>
     ELSE <<GT>> \o (IF t.ht THEN Esc(t.text) ELSE <<>>) \o Concat([i \in DOMAIN t.kids |-> Serialise(t.kids[i])])
          \o <<LT, SL>> \o t.tag \o <<GT>>)
=============================================================================
