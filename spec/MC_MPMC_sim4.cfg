CONSTANTS
  NQ = 4
  NProd = 3
  NCons = 3
  NPush = 3
  NPop = 4
  Dev = {}
INIT Init
NEXT Next
INVARIANT TicketOrder
INVARIANT PoppedExactlyOnce
INVARIANT EmptyOnlyIfHeadUnpublished
INVARIANT Full
CHECK_DEADLOCK FALSE
