------------------------------ MODULE MC_MPMC ------------------------------
(* Model checking of the uMPMC_Ptr_Queue protocol (MPMC.tla) for every interleaving of NProd        *)
(* producers x NPush pushes and NCons consumers x NPop pops over NQ sub-queues, and export of       *)
(* schedules (sequences of thread numbers) for replay on the real queue under controlled            *)
(* scheduling.  `hist` (the schedule so far) is hidden by VIEW in the export configs only; every    *)
(* invariant reads `st` alone, so hiding it loses nothing.                                          *)
EXTENDS MPMC, Json

CONSTANTS NQ, NProd, NCons, NPush, NPop, Dev
VARIABLES st, hist

C == [nq |-> NQ, np |-> NProd, nc |-> NCons, npush |-> NPush, npop |-> NPop, dev |-> Dev]

Init == st = MInit(C) /\ hist = <<>>
Next == \E t \in MThreads(C) : st.pc[t] # "done" /\ st' = StepT(C, st, t) /\ hist' = Append(hist, t)
\* exhaustive runs do not carry the schedule
InitX == st = MInit(C) /\ hist = <<>>
NextX == \E t \in MThreads(C) : st.pc[t] # "done" /\ st' = StepT(C, st, t) /\ UNCHANGED hist

PoppedExactlyOnce == PoppedOnceOf(C, st)
TicketOrder == TicketOrderOf(st)
EmptyOnlyIfHeadUnpublished == EmptyOkOf(st)
SubQueueNonEmptyAtPop == SubPopOkOf(st)
SlotExclusive == SlotExclusiveOf(C, st)
\* stricter reading of the "empty" clause, violated by design (a producer stalled between its
\* reservation and its publication hides every later element): documents the reading adopted
EmptyOnlyIfNothingPublished == "empty_any_published" \notin st.bad
\* every run ends with all quotas used: no thread is ever stuck for good (safety part of progress)
Terminal == AllDone(C, st)
\* witnesses (must be VIOLATED: the antecedents of the invariants are reachable)
Reach_AllPopped == ~(AllDone(C, st) /\ Len(st.got) = NProd * NPush /\ \A k \in DOMAIN st.got : st.got[k] # 0)
Reach_Empty == ~(\E t \in MThreads(C) : st.out = [op |-> "pop", ok |-> FALSE, val |-> 0] /\ st.tickP > st.tickC)

\* behaviour export: one line per generated (state, thread) edge with a shortest schedule reaching it
Edge == PrintT("LEAF " \o ToJson(<<hist, st.pc, st.tk, st.n, st.tickP, st.tickC, st.seqP, st.seqC, st.sub, st.got, st.resv>>))
\* behaviour export for -simulate: print complete schedules only
Full == AllDone(C, st) => PrintT("LEAF " \o ToJson(hist))
View == st
=============================================================================
