CONSTANTS
  MaxRot = 3
  Counts = {0,1,2,3,4,5}
  Gens = {0,1,2,3,4,5}
  Fams = {"log"}
  Dev = {"loop_from_rotnum"}
SPECIFICATION Spec
INVARIANT IndexInBounds
INVARIANT ShiftOK
INVARIANT NoInventionOK
INVARIANT CapOK
INVARIANT UntouchedOK
INVARIANT ZeroMeansNone
INVARIANT SameAsFunction
CHECK_DEADLOCK FALSE
