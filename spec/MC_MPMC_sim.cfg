CONSTANTS
  NQ = 2
  NProd = 3
  NCons = 2
  NPush = 2
  NPop = 4
  Dev = {}
INIT Init
NEXT Next
INVARIANT TicketOrder
INVARIANT PoppedExactlyOnce
INVARIANT EmptyOnlyIfHeadUnpublished
INVARIANT Full
CHECK_DEADLOCK FALSE
