----------------------------- MODULE Persister -----------------------------
(* Message stores of fix8 (runtime/persist.cpp MemoryPersister, runtime/filepersist.cpp            *)
(* FilePersister).  This module is the *contract* (property C26): a map from sequence number to    *)
(* message plus one control record, written as a deterministic step function Apply(state, op)      *)
(* that the model checker (MC_Persister), the crash-consistency design (FileStore) and the trace   *)
(* monitor (T_Persister) all share.  Messages are identified by small integers (ids) standing for  *)
(* byte strings; the driver maps the bytes the real code returns back to ids (-1 = bytes that were *)
(* never handed to the store).                                                                     *)
EXTENDS Naturals, Integers, Sequences, FiniteSets, TLC

None == 0            \* "no message" / "not found"

EmptyFn == [x \in {} |-> 0]
CInit == [store |-> EmptyFn, ctrl |-> <<>>]      \* ctrl = <<>> (never stored) or <<s, r>>

Stored(st) == DOMAIN st.store
MaxOf(S) == IF S = {} THEN 0 ELSE CHOOSE k \in S : \A j \in S : j <= k
MinOf(S) == IF S = {} THEN 0 ELSE CHOOSE k \in S : \A j \in S : k <= j
LastOf(st) == MaxOf(Stored(st))

\* smallest stored number in [req, last]; 0 if none
NearestOf(st, req, last) == MinOf({k \in Stored(st) : k >= req /\ k <= last})

RECURSIVE AscSeq(_)
AscSeq(S) == IF S = {} THEN <<>> ELSE LET m == MinOf(S) IN <<m>> \o AscSeq(S \ {m})

\* callback sequence of a range retrieval: the stored numbers in [from, to] ascending (to = 0 means
\* "up to the last"), each with its message, then one completion call.  ret = records visited.
RangeOf(st, from, to) ==
    LET fin == IF to = 0 THEN LastOf(st) ELSE to
        S == {k \in Stored(st) : k >= from /\ k <= fin}
        a == AscSeq(S)
    IN [calls |-> [i \in DOMAIN a |-> [seq |-> a[i], id |-> st.store[a[i]]]], ret |-> Cardinality(S)]

Apply(st, o) ==
    CASE o.op = "Put" ->
            IF o.seq = 0 \/ o.seq \in Stored(st)
            THEN [st |-> st, res |-> [ret |-> FALSE]]
            ELSE [st |-> [st EXCEPT !.store = (o.seq :> o.id) @@ st.store], res |-> [ret |-> TRUE]]
      [] o.op = "Get" ->
            IF o.seq = 0 \/ o.seq \notin Stored(st)
            THEN [st |-> st, res |-> [ret |-> FALSE, id |-> None]]
            ELSE [st |-> st, res |-> [ret |-> TRUE, id |-> st.store[o.seq]]]
      [] o.op = "PutCtrl" -> [st |-> [st EXCEPT !.ctrl = <<o.s, o.r>>], res |-> [ret |-> TRUE]]
      [] o.op = "GetCtrl" ->
            IF st.ctrl = <<>> THEN [st |-> st, res |-> [ret |-> FALSE, s |-> 0, r |-> 0]]
            ELSE [st |-> st, res |-> [ret |-> TRUE, s |-> st.ctrl[1], r |-> st.ctrl[2]]]
      [] o.op = "Last" -> [st |-> st, res |-> [ret |-> LastOf(st)]]
      [] o.op = "Nearest" -> [st |-> st, res |-> [ret |-> NearestOf(st, o.req, o.last)]]
      [] o.op = "Range" -> [st |-> st, res |-> RangeOf(st, o.from, o.to)]
=============================================================================
