CONSTANTS
  MaxLen = 10
  Lenient = TRUE
  Dev = {"tag_mod_65536"}
INIT Init
NEXT Next
INVARIANT AcceptsExactlyConforming
INVARIANT RetainsAll
CHECK_DEADLOCK FALSE
