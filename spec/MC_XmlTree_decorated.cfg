CONSTANTS
  Dev = {}
  Which = "decorated"
INIT TInit
NEXT TNext
INVARIANT RoundTrip
INVARIANT FindsOwn
INVARIANT Export
CHECK_DEADLOCK FALSE
