SPECIFICATION Spec
INVARIANT OnlyLiveStates
INVARIANT EstablishedOnlyByLogonOrResend
INVARIANT ResendSentOnlyFromContinuous
INVARIANT LogoffOnlyWhenEstablished
INVARIANT TestRequestBySilence
INVARIANT LeavesTestReq
INVARIANT BadIdsEnd
CHECK_DEADLOCK FALSE
