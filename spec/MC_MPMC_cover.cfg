CONSTANTS
  NQ = 2
  NProd = 2
  NCons = 2
  NPush = 1
  NPop = 2
  Dev = {}
INIT Init
NEXT Next
INVARIANT TicketOrder
CONSTRAINT Edge
VIEW View
CHECK_DEADLOCK FALSE
