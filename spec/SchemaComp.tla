------------------------------ MODULE SchemaComp ------------------------------
(* Schema construction as a state machine (DESIGN.md 5.4; C13, C14).                                *)
(*                                                                                                  *)
(* A behaviour builds a FIX schema on top of a fixed skeleton (standard header, trailer and the      *)
(* seven session messages the runtime needs) with the actions                                        *)
(*   DeclField(type, realm?)   AddMessage(admin?)   AddComponent                                     *)
(*   DeclPair / PutPair        a LENGTH field and its DATA field (number + 1), placed together      *)
(*   PutField(target)          place a declared field into a message, a component or a group         *)
(*   UseComponent(target)      reference a component from a message, a group or a later component     *)
(*   AddGroup(target)          new repeating group (count field, first member) in a message or       *)
(*                             component, or nested in a group (= NestGroup)                          *)
(*   ReuseCountField           a second message uses an existing group's count field with the same,  *)
(*                             a reflagged, a reordered, a different-members or a different-nested    *)
(*                             definition, or one whose nested group is reflagged / reordered         *)
(*   Finish                    drops what was never filled in; the schema is exported as a LEAF line *)
(* in a canonical order (declarations, containers, then members container by container) that only    *)
(* removes permutations building the same schema.                                                    *)
(* The state S *is* the meaning of the schema (SchemaOps: Members, ValidSchema); every reachable     *)
(* state is a valid schema (invariant Valid).                                                        *)
(*                                                                                                  *)
(* SchemaOps models what the compiler does with repeating groups: it keeps one table of group        *)
(* definitions per count field, keyed by an identity of the definition, and every occurrence of a     *)
(* group uses the traits of the *first* definition registered under its key (compiler/f8c.cpp         *)
(* parse_groups / find_group).  Ideal design: the key is the definition itself.  Deviations (Dev):    *)
(*   "flags_order_not_in_identity"  the key digests member numbers and nested groups only             *)
(*   "hash_identity"                the key is the 32-bit rothash of that digest                      *)
(* Properties: OwnTraits (every group occurrence gets the members, flags, order and nested groups of  *)
(* its own definition: C13's group clause) and DistinctDefsDistinctTraits (C14).                      *)
EXTENDS SchemaOps, Json

CONSTANTS FieldNums,       \* numbers of the declarable body fields, in declaration order
          CountNums,       \* numbers of the declarable group count fields, in declaration order
          PairNums,        \* numbers n of the declarable LENGTH fields; the DATA field of the pair is n + 1
          MsgTypes,        \* msgtypes of the messages that can be added, in order
          AdminTypes,      \* which of them are admin messages
          CompNames,       \* names of the components that can be added, in order
          MaxDepth, MaxItems,
          MaxSteps,        \* bound on the number of placement steps (declarations and container creation are not counted)
          MinSteps,        \* Finish needs at least this many placement steps (simulation: keep walking)
          Variants,        \* reuse variants enabled: subset of {"same", "flags", "order", "members", "nested"}
          Dev
\* FieldOptions(i): the [type, realm] choices for the i-th declared field (defined by the MC module)
CONSTANT FieldOptions(_)
\* Pick(X): the candidates an action considers out of X - all of them (exhaustive search) or one drawn at random
\* (simulation of a large universe, where computing every successor would be wasteful)
CONSTANT Pick(_)

VARIABLES S, hist, done, cur
vars == <<S, hist, done, cur>>

\* ---- the skeleton every schema starts from ------------------------------------------------------------
F(num, name, type) == [num |-> num, name |-> name, type |-> type, vals |-> <<>>]
SkelFields == <<
    F(7, "BeginSeqNo", "SEQNUM"), F(8, "BeginString", "STRING"), F(9, "BodyLength", "LENGTH"), F(10, "CheckSum", "STRING"),
    F(16, "EndSeqNo", "SEQNUM"), F(34, "MsgSeqNum", "SEQNUM"),
    [num |-> 35, name |-> "MsgType", type |-> "STRING",
     vals |-> << <<"0", "HEARTBEAT">>, <<"1", "TEST_REQUEST">>, <<"2", "RESEND_REQUEST">>, <<"3", "REJECT">>,
                 <<"4", "SEQUENCE_RESET">>, <<"5", "LOGOUT">>, <<"A", "LOGON">> >>],
    F(36, "NewSeqNo", "SEQNUM"), F(43, "PossDupFlag", "BOOLEAN"), F(45, "RefSeqNum", "SEQNUM"), F(49, "SenderCompID", "STRING"),
    F(52, "SendingTime", "UTCTIMESTAMP"), F(56, "TargetCompID", "STRING"), F(58, "Text", "STRING"),
    F(98, "EncryptMethod", "INT"), F(108, "HeartBtInt", "INT"), F(112, "TestReqID", "STRING"), F(123, "GapFillFlag", "BOOLEAN") >>
M(mt, name, items) == [mt |-> mt, name |-> name, admin |-> TRUE, items |-> items]
SkelMsgs == <<
    M("0", "Heartbeat", <<FieldE(112, FALSE)>>), M("1", "TestRequest", <<FieldE(112, TRUE)>>),
    M("2", "ResendRequest", <<FieldE(7, TRUE), FieldE(16, TRUE)>>), M("3", "Reject", <<FieldE(45, TRUE), FieldE(58, FALSE)>>),
    M("4", "SequenceReset", <<FieldE(123, FALSE), FieldE(36, TRUE)>>), M("5", "Logout", <<FieldE(58, FALSE)>>),
    M("A", "Logon", <<FieldE(98, TRUE), FieldE(108, TRUE)>>) >>
Skeleton == [fields |-> SkelFields,
             hdr |-> <<FieldE(8, TRUE), FieldE(9, TRUE), FieldE(35, TRUE), FieldE(49, TRUE), FieldE(56, TRUE), FieldE(34, TRUE),
                       FieldE(43, FALSE), FieldE(52, TRUE)>>,
             trl |-> <<FieldE(10, TRUE)>>, msgs |-> SkelMsgs, comps |-> <<>>]
NSkelMsgs == Len(SkelMsgs)

\* ---- helpers -------------------------------------------------------------------------------------------
DeclaredNums == { S.fields[i].num : i \in DOMAIN S.fields }
NBody == Cardinality(DeclaredNums \cap Range(FieldNums))
NCount == Cardinality(DeclaredNums \cap Range(CountNums))
BodyFields == DeclaredNums \cap Range(FieldNums)
UserMsgs == (NSkelMsgs + 1)..Len(S.msgs)

\* a target is a message or component and a path of item indices leading to a group's member list
RECURSIVE ItemPaths(_)
ItemPaths(items) == {<<>>} \cup UNION { { <<i>> \o p : p \in ItemPaths(items[i].sub) } : i \in {j \in DOMAIN items : items[j].k = "g"} }
RECURSIVE ItemsAt(_, _)
ItemsAt(items, p) == IF p = <<>> THEN items ELSE ItemsAt(items[Head(p)].sub, Tail(p))
RECURSIVE AppendAt(_, _, _)
AppendAt(items, p, e) == IF p = <<>> THEN Append(items, e)
                         ELSE [items EXCEPT ![Head(p)].sub = AppendAt(@, Tail(p), e)]
TItems(t) == IF t.w = "m" THEN S.msgs[t.i].items ELSE S.comps[t.i].items
Targets == UNION { { [w |-> "m", i |-> i, p |-> p] : p \in ItemPaths(S.msgs[i].items) } : i \in UserMsgs }
           \cup UNION { { [w |-> "c", i |-> i, p |-> p] : p \in ItemPaths(S.comps[i].items) } : i \in DOMAIN S.comps }
GoodTarget(t) == Len(ItemsAt(TItems(t), t.p)) < MaxItems
Put(t, e) == IF t.w = "m" THEN [S EXCEPT !.msgs[t.i].items = AppendAt(@, t.p, e)]
             ELSE [S EXCEPT !.comps[t.i].items = AppendAt(@, t.p, e)]
\* validity of a successor, checked where a construction step can break it (the added messages; the skeleton never
\* changes); invariant Valid shows on every completed schema that this is all of ValidSchema
SkelNums == AllNumsSeq(Members(Skeleton, Skeleton.hdr)) \o AllNumsSeq(Members(Skeleton, Skeleton.trl))
UserOk(X) == \A i \in (NSkelMsgs + 1)..Len(X.msgs) :
                LET b == Members(X, X.msgs[i].items) IN
                /\ NoDup(SkelNums \o AllNumsSeq(b)) /\ GroupsOk(b) /\ PairsOkDeep(X, b, TRUE) /\ DepthOf(b) <= MaxDepth
DeepOk(X) == \A c \in Containers(X) : DepthOf(c[2]) <= MaxDepth
\* Canonical construction order (it only removes permutations that build the same schema): all declarable fields
\* are declared first, then the components and the messages are created, then members are placed container by
\* container (components before messages, in index order); inside one container members are appended in document
\* order anyway.  Smaller schemas arise because Finish drops what was never filled in.
NPairs == Cardinality(DeclaredNums \cap Range(PairNums))
AllDeclared == NBody = Len(FieldNums) /\ NPairs = Len(PairNums)
Rank(t) == IF t.w = "c" THEN t.i ELSE Len(CompNames) + t.i
SetupDone == AllDeclared /\ Len(S.msgs) - NSkelMsgs = Len(MsgTypes) /\ Len(S.comps) = Len(CompNames)
NPlaced == Cardinality({ i \in DOMAIN hist : hist[i] \notin {"DeclField", "DeclPair", "AddMessage", "AddAdminMessage", "AddComponent"} })
Step(X, label, rank) ==
    /\ ~done /\ rank >= cur
    /\ rank > 0 => (NPlaced < MaxSteps /\ SetupDone)
    /\ UserOk(X)
    /\ S' = X /\ hist' = Append(hist, label) /\ done' = FALSE /\ cur' = rank

\* candidates worth trying: containers not yet passed by the construction order, with room; fields the container's
\* message does not use yet
OpenTargets == { t \in Targets : Rank(t) >= cur /\ GoodTarget(t) }
FreeFields(t) == BodyFields \ Range(AllNumsSeq(Members(S, TItems(t))))

\* ---- construction actions ------------------------------------------------------------------------------
DeclField ==
    /\ NBody < Len(FieldNums)
    /\ \E o \in Pick(FieldOptions(NBody + 1)) :
          LET num == FieldNums[NBody + 1] IN
          Step([S EXCEPT !.fields = Append(@, [num |-> num, name |-> "F" \o ToString(num), type |-> o.type, vals |-> o.vals])],
               "DeclField", 0)

DeclPair ==
    /\ NBody = Len(FieldNums) /\ NPairs < Len(PairNums)
    /\ LET n == PairNums[NPairs + 1] IN
       Step([S EXCEPT !.fields = @ \o << [num |-> n, name |-> "F" \o ToString(n) \o "Len", type |-> "LENGTH", vals |-> <<>>],
                                         [num |-> n + 1, name |-> "F" \o ToString(n + 1), type |-> "DATA", vals |-> <<>>] >>],
            "DeclPair", 0)

MsgNameOf(mt) == "Msg" \o mt
AddMessage ==
    /\ Len(S.msgs) - NSkelMsgs < Len(MsgTypes) /\ AllDeclared /\ Len(S.comps) = Len(CompNames)
    /\ LET mt == MsgTypes[Len(S.msgs) - NSkelMsgs + 1]
           i35 == CHOOSE i \in DOMAIN S.fields : S.fields[i].num = 35 IN
       Step([S EXCEPT !.msgs = Append(@, [mt |-> mt, name |-> MsgNameOf(mt), admin |-> mt \in AdminTypes, items |-> <<>>]),
                      !.fields[i35].vals = Append(@, <<mt, "MSG_" \o mt>>)],
            IF mt \in AdminTypes THEN "AddAdminMessage" ELSE "AddMessage", 0)

AddComponent ==
    /\ Len(S.comps) < Len(CompNames) /\ AllDeclared
    /\ Step([S EXCEPT !.comps = Append(@, [name |-> CompNames[Len(S.comps) + 1], items |-> <<>>])], "AddComponent", 0)

PutField ==
    \E t \in Pick(OpenTargets) : \E f \in Pick(FreeFields(t)), r \in Pick(BOOLEAN) :
        /\ Step(Put(t, FieldE(f, r)), IF t.p = <<>> THEN "PutField" ELSE "PutFieldInGroup", Rank(t))

\* a length-prefixed data field: both fields together, at the top level of a message
PutPair ==
    \E t \in Pick({ x \in OpenTargets : x.w = "m" /\ x.p = <<>> /\ Len(S.msgs[x.i].items) + 1 < MaxItems }) :
        \E n \in Pick((DeclaredNums \cap Range(PairNums)) \ Range(AllNumsSeq(Members(S, TItems(t))))), r \in Pick(BOOLEAN) :
            Step([S EXCEPT !.msgs[t.i].items = @ \o <<FieldE(n, r), FieldE(n + 1, r)>>], "PutPair", Rank(t))

\* a component may be referenced from a message, from a group, and from a component declared after it
UseComponent ==
    \E t \in Pick(OpenTargets), c \in Pick(DOMAIN S.comps), r \in Pick(BOOLEAN) :
        /\ t.w = "c" => c < t.i
        /\ S.comps[c].items # <<>>
        /\ Step(Put(t, CompE(S.comps[c].name, r)),
                (IF t.w = "c" THEN "NestComponent" ELSE "UseComponent") \o (IF t.p = <<>> THEN "" ELSE "InGroup"), Rank(t))

\* a new group needs a count field (declared now, of type NUMINGROUP) and a first member
AddGroup ==
    \E t \in Pick(OpenTargets) : \E f \in Pick(FreeFields(t)), r \in Pick(BOOLEAN), rf \in {TRUE} :
        /\ NCount < Len(CountNums)
        /\ rf         \* the first member of a new group is mandatory (ReuseCountField "flags" makes it optional)
        /\ LET num == CountNums[NCount + 1]
               X == [Put(t, GroupE(num, r, <<FieldE(f, rf)>>)) EXCEPT
                        !.fields = Append(@, [num |-> num, name |-> "NoG" \o ToString(num), type |-> "NUMINGROUP", vals |-> <<>>])]
           IN Step(X, IF t.p = <<>> THEN (IF t.w = "c" THEN "AddGroupInComponent" ELSE "AddGroup") ELSE "NestGroup", Rank(t))

\* ---- one count field, two definitions -------------------------------------------------------------------
LastPlain(sub) == IF \E j \in DOMAIN sub : sub[j].k = "f" THEN SetMax({ j \in DOMAIN sub : sub[j].k = "f" }) ELSE 0
FreeFor(sub) == BodyFields \ { sub[j].n : j \in DOMAIN sub }
VariantSubs(sub) ==
    (IF "same" \in Variants THEN { [v |-> "same", sub |-> sub] } ELSE {})
    \cup (IF "flags" \in Variants THEN { [v |-> "flags", sub |-> [sub EXCEPT ![j].r = ~@]] : j \in DOMAIN sub } ELSE {})
    \cup (IF "order" \in Variants /\ Len(sub) >= 2 /\ sub[1].k = "f" /\ sub[2].k = "f"
          THEN { [v |-> "order", sub |-> [sub EXCEPT ![1] = sub[2], ![2] = sub[1]]] } ELSE {})
    \cup (IF "members" \in Variants
          THEN { [v |-> "members_replaced", sub |-> [sub EXCEPT ![LastPlain(sub)].n = f]] : f \in IF LastPlain(sub) > 0 THEN FreeFor(sub) ELSE {} }
               \cup { [v |-> "members_added", sub |-> Append(sub, FieldE(f, FALSE))] : f \in FreeFor(sub) }
          ELSE {})
    \cup (IF "nested" \in Variants
          THEN UNION { { [v |-> "nested_flags", sub |-> [sub EXCEPT ![j].sub[q].r = ~@]] : q \in DOMAIN sub[j].sub }     \* same members, other flag inside
                       : j \in { q \in DOMAIN sub : sub[q].k = "g" } }
               \cup UNION { IF Len(sub[j].sub) >= 2 /\ sub[j].sub[1].k = "f" /\ sub[j].sub[2].k = "f"
                            THEN { [v |-> "nested_order", sub |-> [sub EXCEPT ![j].sub = [@ EXCEPT ![1] = sub[j].sub[2], ![2] = sub[j].sub[1]]]] }
                            ELSE {}
                       : j \in { q \in DOMAIN sub : sub[q].k = "g" } }
          ELSE {})
    \cup (IF "nested" \in Variants
          THEN UNION { { [v |-> "nested_dropped", sub |-> SelectSeq(sub, LAMBDA e : e # sub[j])] }                       \* nested group dropped
                       \cup { [v |-> "nested_member", sub |-> [sub EXCEPT ![j].sub = [sub[j].sub EXCEPT ![LastPlain(sub[j].sub)].n = f]]]  \* other member inside
                              : f \in IF LastPlain(sub[j].sub) > 0 THEN FreeFor(sub[j].sub) \ { sub[q].n : q \in DOMAIN sub } ELSE {} }
                       : j \in { q \in DOMAIN sub : sub[q].k = "g" } }
          ELSE {})
ReuseCountField ==
    \E i1 \in UserMsgs, i2 \in Pick({ i \in UserMsgs : Len(CompNames) + i >= cur /\ Len(S.msgs[i].items) < MaxItems }), r \in Pick(BOOLEAN) :
        /\ i1 < i2
        /\ \E j \in Pick({ q \in DOMAIN S.msgs[i1].items : S.msgs[i1].items[q].k = "g" }) :
              /\ \E var \in Pick(VariantSubs(S.msgs[i1].items[j].sub)) :
                    Step([S EXCEPT !.msgs[i2].items = Append(@, GroupE(S.msgs[i1].items[j].n, r, var.sub))],
                         "ReuseCountField_" \o var.v, Len(CompNames) + i2)

\* Finish: what was never filled in is dropped (messages and components without members); at least one added
\* message must remain
KeptMsgs == SelectSeq(S.msgs, LAMBDA m : m.items # <<>>)
Pruned == LET i35 == CHOOSE i \in DOMAIN S.fields : S.fields[i].num = 35 IN
          [S EXCEPT !.msgs = KeptMsgs,
                    !.comps = SelectSeq(@, LAMBDA c : c.items # <<>>),
                    !.fields[i35].vals = SelectSeq(@, LAMBDA v : \E j \in DOMAIN KeptMsgs : KeptMsgs[j].mt = v[1])]
Finish == /\ ~done /\ NPlaced >= MinSteps
          /\ Len(KeptMsgs) > NSkelMsgs
          /\ S' = Pruned /\ done' = TRUE /\ UNCHANGED <<hist, cur>>

Init == S = Skeleton /\ hist = <<>> /\ done = FALSE /\ cur = 0
Next == DeclField \/ DeclPair \/ PutPair \/ AddMessage \/ AddComponent \/ PutField \/ UseComponent \/ AddGroup \/ ReuseCountField \/ Finish

\* ---- properties (the compiler's group table is modelled in SchemaOps: Key, Winner, Compiled) ---------------------
Valid == done => (ValidSchema(S) /\ DeepOk(S))
OwnTraits == done => OwnTraitsOf(Dev, S)
DistinctDefsDistinctTraits == done => DistinctDefsOf(Dev, S)

\* ---- witnesses (must be violated: the family contains such schemas) and export -----------------------------
NoTwoDefinitions == ~\E o1, o2 \in AllGroupOccs(S) : o1[2][Len(o1[2])] = o2[2][Len(o2[2])] /\ MemberStruct(o1[3]) # MemberStruct(o2[3])
NoDepth3 == \A c \in Containers(S) : DepthOf(c[2]) < 3
NoComponentGroup == ~(done /\ \E i \in DOMAIN S.comps : \E j \in DOMAIN S.comps[i].items : S.comps[i].items[j].k = "g")

\* export: the skeleton once (from the initial state), then every completed schema as what was added to it
UserPart == [fields |-> SelectSeq(S.fields, LAMBDA f : \A i \in DOMAIN SkelFields : SkelFields[i].num # f.num),
             mtvals |-> FieldDef(S, 35).vals,
             msgs |-> SubSeq(S.msgs, NSkelMsgs + 1, Len(S.msgs)), comps |-> S.comps, hist |-> hist]
Export == /\ (hist = <<>> /\ ~done) => PrintT("SKEL " \o ToJson(Skeleton))
          /\ done => PrintT("LEAF " \o ToJson(UserPart))
View == <<S, done, cur>>
=============================================================================
