CONSTANTS
  MaxRot = 1024
  Counts <- AllCounts
  Gens = {}
  Fams = {"log"}
  Dev = {"loop_from_rotnum"}
SPECIFICATION Spec
INVARIANT IndexInBounds
INVARIANT UntouchedOK
CHECK_DEADLOCK FALSE
