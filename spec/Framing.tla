------------------------------ MODULE Framing ------------------------------
(* The socket reader's framing (property C15): FIXReader::read / sockRead in                        *)
(* runtime/connection.cpp, include/fix8/connection.hpp.  A message on the wire is                   *)
(*      preamble (P bytes: "8=<BeginString>|9=" and the first length digit)                         *)
(*      further length digits, one byte at a time, up to the field separator                        *)
(*      body (BodyLength bytes)   checksum field (C bytes)                                          *)
(* The counterparty's bytes arrive in arbitrary chunks; sockRead(n) blocks until n bytes have come. *)
(* The design consumes the stream with the reads the code issues and hands each complete message   *)
(* to the session; a malformed preamble stops the reader.                                           *)
(* Messages are abstract: [len |-> body length, bad |-> "" | kind of preamble corruption].          *)
(*   Dev = {}                   delivered = the valid messages before the first corrupt one        *)
(*   Dev = {"short_read"}       (vacuity guard) sockRead returns what is available instead of       *)
(*                              waiting for n bytes: a chunk boundary inside a read misframes        *)
EXTENDS Naturals, Sequences, FiniteSets, TLC, Json

CONSTANTS Msgs,        \* sequence of abstract messages to send
          P, C, Dev

Digits(n) == IF n < 10 THEN 1 ELSE IF n < 100 THEN 2 ELSE 3
Size(m) == P + (Digits(m.len) - 1) + 1 + m.len + C        \* bytes of message m on the wire
RECURSIVE Total(_)
Total(s) == IF s = <<>> THEN 0 ELSE Size(Head(s)) + Total(Tail(s))

VARIABLES sent,      \* bytes written by the counterparty so far
          taken,     \* bytes consumed by the reader
          phase,     \* "pre" | "digits" | "body" | "chk" | "stopped"
          cur,       \* index of the message being read
          need,      \* bytes still wanted by the current sockRead
          delivered, \* indices handed to the session
          cuts       \* history: chunk sizes (exported as replay schedule)

vars == <<sent, taken, phase, cur, need, delivered, cuts>>
N == Len(Msgs)
All == Total(Msgs)

Init == /\ sent = 0 /\ taken = 0 /\ phase = "pre" /\ cur = 1 /\ need = P /\ delivered = <<>> /\ cuts = <<>>

Chunk(k) == /\ sent + k <= All /\ k > 0 /\ sent' = sent + k /\ cuts' = Append(cuts, k)
            /\ UNCHANGED <<taken, phase, cur, need, delivered>>

Avail == sent - taken
\* one sockRead completes (all `need` bytes are there; with short_read whatever is there is taken as if complete)
Read ==
    /\ phase # "stopped" /\ cur <= N
    /\ IF "short_read" \in Dev THEN Avail > 0 ELSE Avail >= need
    /\ LET got == IF Avail >= need THEN need ELSE Avail
           m == Msgs[cur]
           short == got < need
       IN /\ taken' = taken + got
          /\ IF short THEN  \* misframed from here on: whatever follows is garbage to the reader
                /\ phase' = "stopped" /\ delivered' = Append(delivered, 0) /\ UNCHANGED <<cur, need>>
             ELSE IF phase = "pre" THEN
                IF m.bad \in {"beginstring", "first_field"} THEN phase' = "stopped" /\ UNCHANGED <<cur, need, delivered>>
                ELSE phase' = "digits" /\ need' = Digits(m.len) - 1 + 1 /\ UNCHANGED <<cur, delivered>>
             ELSE IF phase = "digits" THEN
                IF m.bad \in {"len_nondigit", "len_zero", "len_too_big"} THEN phase' = "stopped" /\ UNCHANGED <<cur, need, delivered>>
                ELSE phase' = "body" /\ need' = m.len /\ UNCHANGED <<cur, delivered>>
             ELSE IF phase = "body" THEN phase' = "chk" /\ need' = C /\ UNCHANGED <<cur, delivered>>
             ELSE /\ delivered' = Append(delivered, cur) /\ cur' = cur + 1 /\ phase' = "pre" /\ need' = P
    /\ UNCHANGED <<sent, cuts>>

Next == (\E k \in 1..All : Chunk(k)) \/ Read
Spec == Init /\ [][Next]_vars

\* ---- C15 ------------------------------------------------------------------------------------------------
FirstBad == IF \E i \in 1..N : Msgs[i].bad # "" THEN CHOOSE i \in 1..N : Msgs[i].bad # "" /\ \A j \in 1..(i - 1) : Msgs[j].bad = ""
            ELSE N + 1
Expected == [i \in 1..(FirstBad - 1) |-> i]
PrefixOK == \A i \in DOMAIN delivered : i <= Len(Expected) /\ delivered[i] = Expected[i]
Quiet == sent = All /\ ~ENABLED Read
Complete == Quiet => (delivered = Expected /\ (FirstBad <= N => phase = "stopped"))
Leaf == Quiet => PrintT("LEAF " \o ToJson(cuts))
StateView == <<sent, taken, phase, cur, need, delivered>>      \* the chunk history is not behaviour
FewChunks == Len(cuts) <= 3                                     \* export: every split into at most 3 chunks
=============================================================================
