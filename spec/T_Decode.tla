------------------------------ MODULE T_Decode ------------------------------
(* Trace monitors for C03, C04, C05, C06 over the events of harness/src/probe_decode.cpp as       *)
(* projected by lib/decode_common.py.  One execution = {"e":"Reset","prop":..,"schema":..} followed *)
(* by one judged event.  The schema (IOEnv.DECODE_SCHEMA) is the JSON rendering of the real schema *)
(* XML; the acceptor is Decode.tla's, the same one MC_Decode model-checks on the small schema.     *)
(*                                                                                                *)
(* Strict{toks, sum, wf, res, flat}        C04  toks = input tokens [k, v, c, k16, r, t],          *)
(*        sum = byte sum of everything before the CheckSum field, wf = all values well-formed for *)
(*        their type (generated, not mutated), res = ok | exc | abort:*, flat = retained fields   *)
(*        [p, k, v] of the message the factory returned.                                          *)
(* Perm{base, sum0, toks, sum, ins, res0, flat0, res, flat, re_res, re, pass}     C05             *)
(*        base/sum0 = conforming message, decoded strictly (res0, flat0); toks = base with the    *)
(*        unknown tokens `ins` ([i, k, v]: inserted behind base token i) decoded permissively     *)
(*        (res, flat); re = tokens of the re-encoded message; pass = tokens of the library's      *)
(*        pass-through strings.                                                                   *)
(* Data{want, b_res, enc_res, dec_res, got, where, cls, plus1}          C06                       *)
(*        want = requested fields, got = fields after encode -> decode.                           *)
(* Try{kind, res, ms, bound, f, san}     C03   f = length facts of the input, san = kind and innermost *)
(*        fix8 function of the sanitizer report ("ubsan:signed_integer_overflow:fast_atoi")        *)
EXTENDS Common, Decode

VARIABLES l, cur, fails, nexec

Schemas == JsonDeserialize(IOEnv.DECODE_SCHEMA)
Ev == TraceLog[l]

NoDev == {}
RunOn(S, toks, sum, lenient) ==
    Run(S, [body |-> BodyOf(S, toks[3].v), lenient |-> lenient, sum |-> sum, dev |-> NoDev], toks)

AsSet(s) == {s[i] : i \in DOMAIN s}
PKV(s) == {[p |-> s[i].p, k |-> s[i].k, v |-> s[i].v] : i \in DOMAIN s}
KVs(s) == {<<s[i].k, s[i].v>> : i \in DOMAIN s}
Count(s, kv) == Cardinality({i \in DOMAIN s : s[i].k = kv[1] /\ s[i].v = kv[2]})
SameBag(a, b) == KVs(a) = KVs(b) /\ \A kv \in KVs(a) : Count(a, kv) = Count(b, kv)
Fail(why, sig) == [ok |-> FALSE, why |-> why, sig |-> sig]
Pass == [ok |-> TRUE, why |-> "", sig |-> ""]

\* ---- C04 --------------------------------------------------------------------------------------------
\* label of the token on which the ideal acceptor rejected: which named deviation of the code explains
\* that the real decoder did not reject it
TokClass(toks, r) ==
    IF r.why = "first_three" THEN
        (IF \A i \in 1..3 : toks[i].k = <<"8", "9", "35">>[i] \/ toks[i].k16 = <<"8", "9", "35">>[i] THEN ":mod65536"
         ELSE ":by_first_char")
    ELSE IF r.at \in DOMAIN toks /\ toks[r.at].k # toks[r.at].k16 THEN ":mod65536"
    ELSE IF r.why = "duplicate" /\ r.at \in DOMAIN toks /\ toks[r.at].k \in {"8", "9", "35"} THEN ":preamble"
    ELSE ""
\* t = "len": Length field that the schema pairs with a data field; "lone": Length typed field without partner
LoneLength(toks) == \E i \in DOMAIN toks : toks[i].t = "lone"
\* a paired Length field that is not followed by a data field: C04 is silent, acceptance is not demanded
PairBroken(toks) == \E i \in DOMAIN toks : toks[i].t = "len" /\ (i = Len(toks) \/ toks[i + 1].t # "data")

MonStrict(e) ==
    LET S == Schemas[cur.schema]
        hard == RunOn(S, e.toks, e.sum, TRUE)
        full == RunOn(S, e.toks, e.sum, FALSE)
        miss == PKV(hard.out) \ PKV(e.flat)
        extra == PKV(e.flat) \ PKV(hard.out)
    IN
    IF e.res \notin {"ok", "exc"} THEN Fail("no_verdict", "strict:" \o e.res)
    ELSE IF e.res = "ok" /\ ~hard.ok THEN
        Fail("accepted_nonconforming:" \o hard.why, "accepted:" \o hard.why \o TokClass(e.toks, hard))
    ELSE IF e.res = "ok" /\ (miss # {} \/ extra # {} \/ Len(e.flat) # Len(hard.out)) THEN
        Fail("retained_differs",
             "retained:" \o (IF miss = {} /\ extra = {} THEN "repeated"
                             ELSE IF \A x \in miss \cup extra : x.k = "8" THEN "beginstring"
                             ELSE IF \A x \in miss \cup extra : x.k = "9" THEN "bodylength"
                             ELSE "unexplained"))
    ELSE IF e.res = "exc" /\ full.ok /\ e.wf /\ ~PairBroken(e.toks) THEN
        Fail("rejected_conforming", "rejected:" \o (IF LoneLength(e.toks) THEN "lone_length_field" ELSE "unexplained"))
    ELSE Pass

\* ---- C05 --------------------------------------------------------------------------------------------
\* where the unknown tokens were put: "group" if the base token that follows one of them lies in a group
\* element, else the sections of the following base tokens
InsPlace(S, e) ==
    LET b == RunOn(S, e.base, e.sum0, TRUE)
        pathAfter(i) == IF b.ok /\ i + 1 <= Len(b.out) THEN b.out[i + 1].p ELSE "t"
        inGroup(p) == Len(p) > 1
    IN IF \E j \in DOMAIN e.ins : inGroup(pathAfter(e.ins[j].i)) THEN "group"
       ELSE IF \A j \in DOMAIN e.ins : pathAfter(e.ins[j].i) = "h" THEN "header"
       ELSE IF \A j \in DOMAIN e.ins : pathAfter(e.ins[j].i) = "t" THEN "trailer"
       ELSE "body"
NotLen(s) == {x \in s : x.k \notin {"9", "10"}}       \* BodyLength / CheckSum change with the inserted bytes
MonPerm(e) ==
    LET S == Schemas[cur.schema]
        place == InsPlace(S, e)
        known == [i \in DOMAIN e.base |-> e.base[i]]
        reUnknown == SelectSeq(e.re, LAMBDA t : t.u)
        reKnown == SelectSeq(e.re, LAMBDA t : ~t.u)
    IN
    IF e.res0 # "ok" THEN Pass                        \* the base message is C04's business
    ELSE IF e.res \notin {"ok"} THEN Fail("permissive_rejects", "perm:" \o place \o ":rejected:" \o e.res)
    ELSE IF NotLen(PKV(e.flat)) # NotLen(PKV(e.flat0)) \/ Len(e.flat) # Len(e.flat0)
        THEN Fail("known_field_differs_from_strict", "perm:" \o place \o ":known_lost")
    ELSE IF e.re_res # "ok" THEN Fail("reencode_failed", "perm:" \o place \o ":reencode:" \o e.re_res)
    ELSE IF ~SameBag(e.pass, e.ins) THEN Fail("pass_through_is_not_the_unknown_fields", "perm:" \o place \o ":passthrough")
    ELSE IF ~SameBag(reUnknown, e.ins) THEN Fail("unknown_not_reemitted_unchanged", "perm:" \o place \o ":reemit")
    ELSE IF \E i \in DOMAIN known : known[i].k \notin {"9", "10"} /\ Count(reKnown, <<known[i].k, known[i].v>>) = 0
        THEN Fail("known_field_missing_after_reencode", "perm:" \o place \o ":known_missing")
    ELSE Pass

\* ---- C06 --------------------------------------------------------------------------------------------
MonData(e) ==
    LET sig == "data:" \o e.where \o ":" \o e.cls \o (IF e.plus1 THEN "" ELSE ":tag_not_plus1") IN
    IF e.b_res # "ok" \/ e.enc_res # "ok" THEN Fail("encode_failed", sig \o ":encode:" \o e.enc_res)
    ELSE IF e.dec_res # "ok" THEN Fail("decode_failed", sig \o ":decode:" \o e.dec_res)
    ELSE IF PKV(e.got) # PKV(e.want) \/ Len(e.got) # Len(e.want) THEN Fail("data_or_following_fields_differ", sig \o ":differs")
    ELSE Pass

\* ---- C03 --------------------------------------------------------------------------------------------
\* facts of the input (lengths), from which the named deviations of Extract.tla predict an overflow
TagCapHdr == 32
ValCap == 2048
EncCap == 8192 + 32
Explains(e) ==
    IF e.kind = "dec" THEN
        (IF e.f.tag3 >= TagCapHdr \/ e.f.tagmax >= ValCap THEN "unbounded_tag"
         ELSE IF e.f.val23 >= TagCapHdr \/ e.f.valmax >= ValCap THEN "unbounded_val"
         ELSE IF e.f.enclen + 32 + 8 > EncCap THEN "unbounded_encode"       \* the probe re-encodes what it decoded
         ELSE "unexplained")
    ELSE (IF e.f.enclen + 32 + 8 > EncCap THEN "unbounded_encode" ELSE "unexplained")
MonTry(e) ==
    IF e.res \in {"ok", "exc"} THEN
        (IF e.ms > e.bound THEN Fail("too_slow", e.kind \o ":slow") ELSE Pass)
    ELSE Fail("not_total_or_memory_error:" \o e.res,
              e.kind \o ":" \o e.res \o ":" \o Explains(e) \o ":" \o e.san)

MonStep(e) ==
    CASE e.e = "Strict" -> MonStrict(e)
      [] e.e = "Perm" -> MonPerm(e)
      [] e.e = "Data" -> MonData(e)
      [] e.e = "Try" -> MonTry(e)
      [] OTHER -> Pass

Init == l = 1 /\ cur = [schema |-> "utest"] /\ fails = <<>> /\ nexec = 0
Next ==
    \/ /\ l <= NLines
       /\ IF Ev.e = "Reset"
          THEN cur' = [schema |-> Ev.schema] /\ nexec' = nexec + 1 /\ fails' = fails
          ELSE LET r == MonStep(Ev) IN
               /\ fails' = IF r.ok THEN fails ELSE Append(fails, [line |-> l, exec |-> nexec, why |-> r.why, sig |-> r.sig])
               /\ UNCHANGED <<cur, nexec>>
       /\ l' = l + 1
    \/ /\ l = NLines + 1
       /\ WriteVerdict(l - 1, fails, nexec)
       /\ l' = l + 1
       /\ UNCHANGED <<cur, fails, nexec>>
=============================================================================
