CONSTANTS
  Msgs <- MsgsValid
  P = 3
  C = 2
  Dev = {}
SPECIFICATION Spec
INVARIANT PrefixOK
INVARIANT Complete
CONSTRAINT Leaf
CONSTRAINT FewChunks
CHECK_DEADLOCK FALSE
