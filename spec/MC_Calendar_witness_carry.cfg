CONSTANTS
 Dev = {}
 Family = "log"
INIT Init
NEXT Next
CHECK_DEADLOCK FALSE
INVARIANTS NeverCarries
