CONSTANTS
  NQ = 2
  NProd = 3
  NCons = 2
  NPush = 1
  NPop = 3
  Dev = {}
INIT InitX
NEXT NextX
INVARIANT PoppedExactlyOnce
INVARIANT TicketOrder
INVARIANT EmptyOnlyIfHeadUnpublished
INVARIANT SubQueueNonEmptyAtPop
INVARIANT SlotExclusive
CHECK_DEADLOCK FALSE
