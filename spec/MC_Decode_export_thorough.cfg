CONSTANTS
  MaxLen = 12
  Lenient = TRUE
  Dev = {}
INIT Init
NEXT Next
INVARIANT AcceptsExactlyConforming
INVARIANT RetainsAll
CONSTRAINT Leaf
CHECK_DEADLOCK FALSE
