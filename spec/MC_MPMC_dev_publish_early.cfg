CONSTANTS
  NQ = 2
  NProd = 2
  NCons = 2
  NPush = 2
  NPop = 2
  Dev = {"publish_early"}
INIT InitX
NEXT NextX
INVARIANT SubQueueNonEmptyAtPop
CHECK_DEADLOCK FALSE
