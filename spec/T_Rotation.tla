----------------------------- MODULE T_Rotation -----------------------------
(* Trace monitor for C29.  One event per real rotation:                                            *)
(*   Rotate{kind: "log"|"store", rotnum, append, force, purge, crashed, crash,                      *)
(*          before: [{f, g, c}], after: [{f, g, c}]}                                               *)
(* before/after list the scratch directory: f = family ("log"; "db"/"idx" for a store; "other"     *)
(* for every name that is not `name` / `name.<k>`), g = generation number (or an index for          *)
(* bystanders), c = content id.  crashed: the process was aborted inside the call (crash names the *)
(* report: "vector_index" = index beyond the bookkeeping vector, "asan", "other").                 *)
(*                                                                                                *)
(* The monitor demands the clauses of the statement and nothing else:                              *)
(*   a rotation is due iff  rotnum > 0  and (log: not append-mode, or forced; store: purge);        *)
(*   due:      shift (name.k holds what name.(k-1) held, k = 1..cap), cap (nothing beyond name.cap  *)
(*             is created or changed; cap = min(rotnum, 1024)), bystanders untouched; where         *)
(*             name.(k-1) did not exist, name.k may be gone or be what it was, but nothing else;    *)
(*   not due:  name.1, name.2 ... and all bystanders are exactly as before;                         *)
(*   always:   the call comes back (no access outside the bookkeeping).                             *)
(* Nothing is demanded of the content of the live file `name` itself.                              *)
EXTENDS Common, Rotation

VARIABLES l, fails, nexec, labels

MaxRotation == 1024      \* Logger::max_rotation, the documented maximum
EmptyFn == [x \in {} |-> 0]
Ev == TraceLog[l]

DirOf(lst) == LET S == SeqToSet(lst)
              IN [n \in {<<x.f, x.g>> : x \in S} |-> (CHOOSE x \in S : <<x.f, x.g>> = n).c]
FamsOf(kind) == IF kind = "log" THEN {"log"} ELSE {"db", "idx"}
Due(e) == e.rotnum > 0 /\ (IF e.kind = "log" THEN (~e.append \/ e.force) ELSE e.purge)

Judge(e) ==
    IF e.crashed THEN
        << [ok |-> FALSE, why |-> "outside_bookkeeping",
            sig |-> IF e.crash = "vector_index" /\ e.rotnum > MaxRotation
                    THEN "oob:" \o e.kind \o ":loop_from_rotnum" ELSE "unexplained:abort:" \o e.crash] >>
    ELSE
    LET d0 == DirOf(e.before)
        d1 == DirOf(e.after)
        fams == FamsOf(e.kind)
        cap == CapOf(e.rotnum, MaxRotation)
    IN IF Due(e) THEN
          << [ok |-> Shifted(d0, d1, fams, cap), why |-> "shift", sig |-> "unexplained:shift:" \o e.kind],
             [ok |-> NoInvention(d0, d1, fams, cap), why |-> "shift", sig |-> "unexplained:invented_generation:" \o e.kind],
             [ok |-> CapKept(d0, d1, fams, cap), why |-> "cap", sig |-> "unexplained:cap:" \o e.kind],
             [ok |-> Untouched(d0, d1, fams), why |-> "bystander_touched", sig |-> "unexplained:bystander:" \o e.kind] >>
       ELSE
          << [ok |-> GensKept(d0, d1, fams), why |-> "rotated_although_not_due", sig |-> "unexplained:not_due:" \o e.kind],
             [ok |-> Untouched(d0, d1, fams), why |-> "bystander_touched", sig |-> "unexplained:bystander:" \o e.kind] >>

\* design conformance (label only): the directory the design algorithm produces, the live files aside
Rest(d, fams) == [n \in {x \in DOMAIN d : ~(IsGen(x, fams) /\ x[2] = 0)} |-> d[n]]
DesignLabel(e) ==
    IF e.crashed THEN "rotation_aborted"
    ELSE LET d0 == DirOf(e.before)
             d1 == DirOf(e.after)
             fams == FamsOf(e.kind)
             want == IF Due(e) THEN RunRotation(d0, fams, e.rotnum, MaxRotation, {}, 0).dir ELSE d0
         IN IF Rest(want, fams) = Rest(d1, fams) THEN "rotation_as_designed" ELSE "rotation_unexplained"

Failing(js) == SelectSeq(js, LAMBDA j : ~j.ok)
Bump(b, k) == IF k = "" THEN b ELSE IF k \in DOMAIN b THEN [b EXCEPT ![k] = @ + 1] ELSE (k :> 1) @@ b

Init == l = 1 /\ fails = <<>> /\ nexec = 0 /\ labels = EmptyFn
Next ==
    \/ /\ l <= NLines
       /\ IF Ev.e = "Rotate"
          THEN LET fs == Failing(Judge(Ev)) IN
               /\ fails' = fails \o [i \in DOMAIN fs |-> [line |-> l, exec |-> nexec, why |-> fs[i].why, sig |-> fs[i].sig]]
               /\ labels' = Bump(labels, DesignLabel(Ev))
          ELSE UNCHANGED <<fails, labels>>
       /\ nexec' = IF Ev.e = "Reset" THEN nexec + 1 ELSE nexec
       /\ l' = l + 1
    \/ /\ l = NLines + 1
       /\ WriteVerdictL(l - 1, fails, nexec, labels)
       /\ l' = l + 1
       /\ UNCHANGED <<fails, nexec, labels>>
=============================================================================
