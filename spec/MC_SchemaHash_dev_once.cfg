CONSTANTS
  FieldNums <- NoSeq
  PairNums <- NoSeq
  CountNums <- NoSeq
  MsgTypes <- NoSeq
  AdminTypes = {}
  CompNames <- NoSeq
  MaxDepth = 3
  MaxItems = 6
  MaxSteps = 0
  MinSteps = 0
  Pick <- PickAll
  Variants = {}
  FieldOptions <- NoOptions
  As = {100, 101, 102, 105}
  Bs = {8425, 8426, 8431, 9000, 12345, 20000}
  Ps = {0, 90}
  Shapes = {"pair", "swapped", "suffix", "nested", "triple", "adjacent_first", "adjacent_last"}
  CountA = 300
  CountB = 301
  Suffix = 60000
  Dev = {"hash_probe_once"}
INIT HInit
NEXT HNext
INVARIANT DistinctDefsDistinctTraits
CHECK_DEADLOCK FALSE
