CONSTANTS
  Dev = {}
  H = 10
  MaxSteps = 7
  MaxNow = 50
SPECIFICATION Spec
INVARIANT MonitorAccepts
INVARIANT NoEarlyLogout
VIEW StateView
CHECK_DEADLOCK FALSE
