CONSTANTS
 Dev = {"dtoa_exp_above_intmax", "dtoa_whole_overflow"}
 Family = "dyadic"
 KStep = 4
 WTop = {}
 ExportStep = 64
INIT Init
NEXT Next
CHECK_DEADLOCK FALSE
INVARIANTS DtoaCorrect
