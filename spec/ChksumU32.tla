------------------------------ MODULE ChksumU32 ------------------------------
(* Unsigned 32-bit machine arithmetic for the transcriptions of C/C++ code (Chksum.tla,          *)
(* Numeric.tla).  TLC integers are signed 32-bit, so a uint32 is a pair of 16-bit halves          *)
(* [h, l] denoting h * 65536 + l; every operation is modulo 2^32 as on the machine.               *)
EXTENDS Naturals, Integers, Bitwise

H16 == 65536

U32(h, l) == [h |-> h, l |-> l]
U32Zero == U32(0, 0)
\* from a natural number below 2^31
U32Of(n) == U32(n \div H16, n % H16)
\* sign extension of a C `char` (signed, 8 bit) holding byte b to 32 bit, as in `ret += from[i]`
U32OfSChar(b) == IF b < 128 THEN U32(0, b) ELSE U32(65535, 65280 + b)

Add32(a, b) == LET l == a.l + b.l IN U32((a.h + b.h + l \div H16) % H16, l % H16)
Sub32(a, b) == LET l == a.l - b.l + H16 IN U32((a.h - b.h + H16 - (IF l < H16 THEN 1 ELSE 0)) % H16, l % H16)
And32(a, b) == U32(a.h & b.h, a.l & b.l)
Xor32(a, b) == U32(a.h ^^ b.h, a.l ^^ b.l)
Shr8(a) == U32(a.h \div 256, (a.h % 256) * 256 + a.l \div 256)
Shr16(a) == U32(0, a.h)
Shr24(a) == U32(0, a.h \div 256)
Shl1(a) == U32((a.h * 2 + a.l \div 32768) % H16, (a.l * 2) % H16)
Shl3(a) == U32((a.h * 8 + a.l \div 8192) % H16, (a.l * 8) % H16)
LowByte(a) == a.l % 256
\* byte lane k (0 = least significant) of a
Lane(a, k) == CASE k = 0 -> a.l % 256 [] k = 1 -> a.l \div 256 [] k = 2 -> a.h % 256 [] k = 3 -> a.h \div 256
\* little-endian load of four bytes
U32OfBytes(b0, b1, b2, b3) == U32(b3 * 256 + b2, b1 * 256 + b0)
\* value as a signed 32-bit integer (two's complement); fits a TLC integer exactly
AsInt32(a) == IF a.h >= 32768 THEN (a.h - H16) * H16 + a.l ELSE a.h * H16 + a.l
\* a signed 32-bit integer given as (hi, lo) with v = hi * 65536 + lo, lo in 0..65535
OfInt32(v) == U32((v \div H16) % H16, v % H16)
=============================================================================
