------------------------------- MODULE Tables -------------------------------
(* Metadata lookup structures of fix8 (property C12).                                               *)
(*                                                                                                  *)
(* 1. GeneratedTable<Key, Val>::_find (include/fix8/f8types.hpp): binary search over the sorted     *)
(*    static table the schema compiler emits; F8MetaCntx::_flu and FieldTrait_Hash_Array            *)
(*    (include/fix8/message.hpp, traits.hpp): arrays indexed by the key holding the offset of the   *)
(*    entry (0 for "absent", disambiguated by comparing the entry's key).  Both are transcribed     *)
(*    next to their meaning: a total map lookup (hit iff present, and the entry is that key's).     *)
(*                                                                                                  *)
(* 2. presorted_set<K, T, Comp> (f8types.hpp) and its FieldTrait specialisation (traits.hpp): a     *)
(*    sorted array with spare capacity, as a state machine over                                     *)
(*       arr  the elements [k, p] (key, payload) in array order        sz = Len(arr)                *)
(*       cap  _rsz: elements the current array can hold                                             *)
(*       gen  identity of the current array (0: none allocated yet); a returned iterator is         *)
(*            [gen, pos], so an iterator into a released array is visible as a stale gen            *)
(*       live identities of the arrays allocated and not released                                   *)
(*    with the actions Insert (first element / duplicate / in-place shift / reallocation), Find     *)
(*    and Clear.  Named deviations of the code (d \in Dev):                                         *)
(*       insert_returns_stale_iterator  after a reallocating insert the returned iterator still     *)
(*                                      points into the released array                              *)
(*       leak_on_empty_insert           inserting into an empty set always allocates a new array    *)
(*                                      and forgets the one it had (clear() keeps the array)        *)
(*       zero_reserve                   calc_reserve(0, 0) = 0: an empty set built with reserve 0   *)
(*                                      allocates 0 elements and writes one                         *)
EXTENDS Realm

\* ---- 1. static tables ----------------------------------------------------------------------------
\* GeneratedTable::_find: offset of the pair or -1
TableFind(keys, k) ==
    LET p == LowerBound(keys, k) IN IF p # Len(keys) /\ ~(k < keys[p + 1]) THEN p ELSE -1

\* hash array: size = largest key + 1, slot = offset of the entry, 0 when absent
\* (a table is never empty in generated code: FieldTrait_Hash_Array reads its last trait to size the array)
HashSize(keys, Dev) == IF keys = <<>> THEN 0 ELSE keys[Len(keys)] + 1
HashSlot(keys, k) == IF Member(keys, k) THEN PosOf(keys, k) ELSE 0
HashFind(keys, k, Dev) ==
    IF k < HashSize(keys, Dev) /\ keys[HashSlot(keys, k) + 1] = k THEN HashSlot(keys, k) ELSE -1
MapLookup(keys, k) == Idx(keys, k)       \* the meaning: offset of k's own entry, -1 iff absent

\* ---- 2. the insertable sorted set ---------------------------------------------------------------
MaxN(a, b) == IF a > b THEN a ELSE b
CalcReserve(sz, res, Dev) ==
    IF sz = 0 THEN (IF "zero_reserve" \in Dev THEN res ELSE MaxN(res, 1))
    ELSE MaxN((sz * res) \div 100, 1)

KeysOf(a) == [i \in DOMAIN a |-> a[i].k]
InsertAt(a, w, e) == SubSeq(a, 1, w) \o <<e>> \o SubSeq(a, w + 1, Len(a))      \* w: 0-based offset

\* state of a set: [arr, cap, gen, live, ngen, oob]; result of a call: [ok, it]
NewEmpty(res, Dev) == [arr |-> <<>>, cap |-> CalcReserve(0, res, Dev), gen |-> 0, live |-> {}, ngen |-> 0, oob |-> FALSE]
NewFrom(init, res, Dev) ==
    [arr |-> init, cap |-> Len(init) + CalcReserve(Len(init), res, Dev), gen |-> 1, live |-> {1}, ngen |-> 1, oob |-> FALSE]

SetInsert(s, res, e, Dev) ==
    LET sz == Len(s.arr)
        ks == KeysOf(s.arr)
        w == LowerBound(ks, e.k)
    IN
    IF sz = 0 THEN
        \* code: _arr = new T[_rsz] unconditionally
        LET fresh == s.gen = 0 \/ "leak_on_empty_insert" \in Dev
            g == IF fresh THEN s.ngen + 1 ELSE s.gen
        IN [st |-> [s EXCEPT !.arr = <<e>>, !.gen = g, !.ngen = IF fresh THEN g ELSE @,
                             !.live = IF ~fresh THEN @
                                      ELSE IF "leak_on_empty_insert" \in Dev THEN @ \cup {g} ELSE {g},
                             !.oob = @ \/ s.cap < 1],
            res |-> [ok |-> TRUE, it |-> [gen |-> g, pos |-> 0]]]
    ELSE IF Member(ks, e.k) THEN
        [st |-> s, res |-> [ok |-> FALSE, it |-> [gen |-> s.gen, pos |-> sz]]]          \* end()
    ELSE IF sz < s.cap THEN
        [st |-> [s EXCEPT !.arr = InsertAt(@, w, e)], res |-> [ok |-> TRUE, it |-> [gen |-> s.gen, pos |-> w]]]
    ELSE
        LET g == s.ngen + 1 IN
        [st |-> [s EXCEPT !.arr = InsertAt(@, w, e), !.cap = sz + CalcReserve(sz, res, Dev), !.gen = g, !.ngen = g,
                          !.live = (@ \ {s.gen}) \cup {g}],
         res |-> [ok |-> TRUE,
                  it |-> [gen |-> IF "insert_returns_stale_iterator" \in Dev THEN s.gen ELSE g, pos |-> w]]]

SetFind(s, k) ==
    LET ks == KeysOf(s.arr) IN
    [st |-> s, res |-> [ok |-> Member(ks, k), it |-> [gen |-> s.gen, pos |-> LowerBound(ks, k)]]]

SetClear(s) == [st |-> [s EXCEPT !.arr = <<>>], res |-> [ok |-> TRUE, it |-> [gen |-> s.gen, pos |-> 0]]]

SetApply(s, res, o, Dev) ==
    CASE o.op = "Ins" -> SetInsert(s, res, [k |-> o.k, p |-> o.p], Dev)
      [] o.op = "Find" -> SetFind(s, o.k)
      [] o.op = "Clear" -> SetClear(s)
=============================================================================
