------------------------------ MODULE MC_Tables ------------------------------
(* Static lookup structures of Tables.tla against their meaning, exhaustively within a bound:      *)
(* every sorted key table over Vals (including the empty one) and every probe key.                *)
EXTENDS Tables

CONSTANTS Vals, Dev
VARIABLES keys, k

Probes == 0..(MinOfSet({-x : x \in Vals}) * (-1) + 2)
Init == keys \in {SortedSeqOf(S) : S \in SUBSET Vals} /\ k \in Probes
Next == UNCHANGED <<keys, k>>

\* C12: a hit exactly when the key is present, and the entry returned is that key's
TableExact == TableFind(keys, k) = MapLookup(keys, k)
HashExact == HashFind(keys, k, Dev) = MapLookup(keys, k)
=============================================================================
