CONSTANTS
  MaxEl = 2
  NegInts = FALSE
  Dev = {}
SPECIFICATION Spec
INVARIANT Reach_Nested2
VIEW View
CHECK_DEADLOCK FALSE
