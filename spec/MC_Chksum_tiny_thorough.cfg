CONSTANTS
 Dev = {}
 Family = "tiny"
 MaxMid = 11
 MaxTiny = 9
 CarryTail = 2
 CarryLens = {}
INIT Init
NEXT Next
CHECK_DEADLOCK FALSE
INVARIANTS InvResult InvReads InvGhost InvLoop InvTail
