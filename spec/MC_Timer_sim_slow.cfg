CONSTANTS
  MaxEv = 5
  Delays = {1, 2, 5}
  Steps = {1, 2, 3, 7}
  MaxNow = 30
  MaxRuns = 3
  MaxClr = 2
  Dev = {}
  Slows = {0, 2, 6}
  Export = TRUE
INIT Init
NEXT Next
INVARIANT NoEarlyFire
INVARIANT DueOrder
INVARIANT RepeatSpacing
INVARIANT ClearSilences
INVARIANT Full
CHECK_DEADLOCK FALSE
