---------------------------- MODULE MC_Rotation ----------------------------
(* The rotation algorithm of Rotation.tla as a transition system (one loop pass per step), for     *)
(* every rotation count in Counts and every pre-existing set of generations drawn from Gens (per   *)
(* family) plus bystander files.                                                                   *)
(*   small configs: cap MaxRot = 3, counts 0..5, every subset of generations 0..5: shifting, cap,   *)
(*                  gaps, bystanders and the index bound, one and two families;                    *)
(*   bounds config: the real cap 1024, every count 0..1100, the directory abstracted away          *)
(*                  (Gens = {}): the bookkeeping list is represented by its length only;            *)
(*   export config: the real cap, boundary counts and generation sets around the boundary; each    *)
(*                  finished scenario is printed and replayed on the real code.                     *)
EXTENDS Rotation, Json

CONSTANTS MaxRot, Counts, Gens, Fams, Dev
VARIABLES st, d0, rotnum

vars == <<st, d0, rotnum>>
Others == {<<"other", 1>>, <<"other", 2>>}
Fresh == <<"new", 0>>
\* the content of a pre-existing file is identified with the name it had
Content(S) == [n \in S |-> n]

Init == /\ rotnum \in Counts
        /\ \E S \in SUBSET (Fams \X Gens) : d0 = Content(S \cup Others)
        /\ st = Start(d0, rotnum, MaxRot, Dev)
Next == \/ st.pc = "loop" /\ st' = LoopStep(st, Fams) /\ UNCHANGED <<d0, rotnum>>
        \/ st.pc = "open" /\ st' = OpenLive(st, Fams, Fresh) /\ UNCHANGED <<d0, rotnum>>
Spec == Init /\ [][Next]_vars

Cap == CapOf(rotnum, MaxRot)
IndexInBounds == InBounds(st) /\ ~st.oob
Done == st.pc = "done"
ShiftOK == Done => Shifted(d0, st.dir, Fams, Cap)
NoInventionOK == Done => NoInvention(d0, st.dir, Fams, Cap)
CapOK == Done => CapKept(d0, st.dir, Fams, Cap)
UntouchedOK == Untouched(d0, st.dir, Fams)                \* at every step, not only at the end
ZeroMeansNone == (rotnum = 0 /\ Done) => GensKept(d0, st.dir, Fams)
\* the step-wise machine and the function the monitor uses agree
SameAsFunction == Done => st.dir = RunRotation(d0, Fams, rotnum, MaxRot, Dev, Fresh).dir
\* witness (must be violated): some scenario really moves a generation into the last kept slot
Reach_ShiftIntoCap == ~(Done /\ Cap >= 2 /\ \E f \in Fams : G(f, Cap) \in DOMAIN st.dir /\ st.dir[G(f, Cap)] = G(f, Cap - 1))

RECURSIVE SetToSeq(_)
SetToSeq(S) == IF S = {} THEN <<>> ELSE LET m == CHOOSE x \in S : \A y \in S : x <= y IN <<m>> \o SetToSeq(S \ {m})
Leaf == Done => PrintT("LEAF " \o ToJson([rotnum |-> rotnum,
                   gens |-> SetToSeq({n[2] : n \in {x \in DOMAIN d0 : IsGen(x, Fams)}})]))
=============================================================================
