CONSTANTS
  FieldNums <- Seq3
  PairNums <- Pairs0
  CountNums <- Counts3
  MsgTypes <- Msgs2
  AdminTypes = {"UB"}
  CompNames <- Comps0
  MaxDepth = 3
  MaxItems = 3
  MaxSteps = 3
  MinSteps = 0
  Pick <- PickAll
  Variants = {"same", "flags", "order", "members", "nested"}
  Dev = {"flags_order_not_in_identity"}
  FieldOptions <- SmallOptions
INIT Init
NEXT Next
INVARIANT DistinctDefsDistinctTraits
VIEW View
CHECK_DEADLOCK FALSE
