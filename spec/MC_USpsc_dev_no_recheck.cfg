CONSTANTS
  SegSize = 2
  NSeg = 4
  CacheCap = 1
  NItems = 6
  NPops = 7
  Dev = {"no_recheck"}
INIT Init
NEXT Next
INVARIANT NoBreach
CHECK_DEADLOCK FALSE
