------------------------------- MODULE T_Xml -------------------------------
(* Trace monitor for C32.  Events (harness/src/probe_xml.cpp, lib/props/c32.py):                          *)
(*   Reset{kind:"tree", tree, [inp]}   an element tree generated from the TLA+ tree model and serialised  *)
(*                                     by the driver (markup characters as entity / numeric references)   *)
(*   Reset{kind:"model", inp}          a byte string exported from the state-machine model                *)
(*   Reset{kind:"bytes"}               arbitrary bytes                                                    *)
(*   Parse{out, xe, kind, [tree]}      what XmlElement::Factory did: out = "tree" | "null" | "exc"        *)
(*                                     (xe: the exception was an XMLError) - or "memerr" / "timeout",     *)
(*                                     written by the driver when the probe died on this input            *)
(*   Find{at, path, filt, an, av, hits, first}   XmlElement::find on element `at` of the last tree        *)
(* Verdict clauses (the statement of C32, nothing else):                                                  *)
(*   totality   every Parse: a tree (or no tree) or an XML parse error; never a memory error or a hang    *)
(*   tree       kind "tree": the parser returns a tree with the same tags, attribute maps, text and child *)
(*              order as the generated one                                                                *)
(*   find       the set of elements returned for a path is exactly the matching elements; the single-     *)
(*              result lookup returns one of them, or nothing when there is none                          *)
(* Design conformance (a label, never a verdict): for kind "model" and small trees the outcome of the     *)
(* real parser is compared with Xml!ModelParse on the same bytes with the code's deviations.              *)
EXTENDS Common, Xml

VARIABLES l, ms, fails, nexec, labels

Ev == TraceLog[l]
XmlCodeDev == {"entity_double_decode"}
EmptyFn == [x \in {} |-> 0]

RECURSIVE Conv(_)
Conv(j) == [tag |-> j.tag, attrs |-> {<<j.attrs[i][1], j.attrs[i][2]>> : i \in DOMAIN j.attrs},
            ht |-> j.ht, text |-> j.text, hd |-> j.hd, decl |-> j.decl,
            kids |-> [i \in DOMAIN j.kids |-> Conv(j.kids[i])]]

NoTree == Elem(<<>>, {}, FALSE, <<>>, <<>>)
MsInit(e) == [kind |-> e.kind,
              want |-> IF e.kind = "tree" THEN Conv(e.tree) ELSE NoTree,
              pre |-> IF e.kind = "tree" THEN Pre(Conv(e.tree)) ELSE <<>>,
              inp |-> IF Has(e, "inp") THEN e.inp ELSE <<>>,
              hasinp |-> Has(e, "inp")]

MinOfSet(S) == CHOOSE x \in S : \A y \in S : x <= y

\* ---- tree clause: where and how the parsed tree differs from the generated one ----------------------------
\* a value that differs from the generated one is the known double decoding iff it is the generated value with
\* some of its reference-shaped substrings decoded once more
ValueClass(want, got) == IF HasRefShape(want) /\ got # want /\ got \in DecodeClosure({want})
                         THEN "entity_double_decode" ELSE "unexplained"
AttrNames(A) == {p[1] : p \in A}
ValOf(A, nm) == (CHOOSE p \in A : p[1] = nm)[2]
TreeDiff(pw, pg) ==        \* pw: preorder of the generated tree, pg: of the parsed one; "" if equal
    IF Len(pw) # Len(pg) \/ \E i \in DOMAIN pw : pw[i].chain # pg[i].chain THEN "structure"
    ELSE LET bad == {i \in DOMAIN pw : pw[i].el.attrs # pg[i].el.attrs \/ pw[i].el.ht # pg[i].el.ht
                                        \/ (pw[i].el.ht /\ pw[i].el.text # pg[i].el.text)}
         IN IF bad = {} THEN ""
            ELSE LET i == MinOfSet(bad)  w == pw[i].el  g == pg[i].el IN
                 IF AttrNames(w.attrs) # AttrNames(g.attrs) THEN "attr_names"
                 ELSE IF w.attrs # g.attrs THEN
                      LET nm == CHOOSE n \in AttrNames(w.attrs) : ValOf(w.attrs, n) # ValOf(g.attrs, n)
                          cls == {ValueClass(ValOf(w.attrs, n), ValOf(g.attrs, n)) :
                                      n \in {k \in AttrNames(w.attrs) : ValOf(w.attrs, k) # ValOf(g.attrs, k)}}
                      IN "attr_value:" \o (IF cls = {"entity_double_decode"} THEN "entity_double_decode" ELSE "unexplained")
                 ELSE IF w.ht # g.ht THEN "text_presence"
                 ELSE "text:" \o ValueClass(w.text, g.text)

Total(e) == e.out \in {"tree", "null"} \/ (e.out = "exc" /\ e.xe)

ParseStep(m, e) ==
    IF ~Total(e) THEN [ok |-> FALSE, why |-> "the parser neither returned a tree nor threw an XML parse error: " \o e.out \o " " \o e.kind,
                       sig |-> m.kind \o ":totality:" \o e.out \o ":" \o e.kind]
    ELSE IF m.kind # "tree" THEN [ok |-> TRUE, why |-> "", sig |-> ""]
    ELSE IF e.out # "tree" THEN [ok |-> FALSE, why |-> "a well-formed document was rejected: " \o e.kind,
                                 sig |-> "tree:rejected:" \o e.kind]
    ELSE LET d == TreeDiff(m.pre, Pre(Conv(e.tree))) IN
         [ok |-> d = "", why |-> "the parsed tree differs from the generated one: " \o d, sig |-> "tree:" \o d]

\* ---- find clause ----------------------------------------------------------------------------------------
FindStep(m, e) ==
    IF e.noel THEN [ok |-> FALSE, why |-> "the parsed tree has no element " \o ToString(e.at) \o " to start the lookup from",
                    sig |-> "find:no_start_element"]
    ELSE
    LET S == FindAll(m.pre, e.at, e.path, e.filt, e.an, e.av)
        H == SeqToSet(e.hits)
        shape == (IF Len(e.path) >= 2 /\ e.path[1] = SL /\ e.path[2] = SL THEN "rooted" ELSE "relative")
                 \o (IF e.filt THEN ":filtered" ELSE "")
        what == IF \E x \in S : x \notin H THEN "missing"
                ELSE IF H # S \/ Len(e.hits) # Cardinality(S) THEN "extra"
                ELSE IF (S = {} /\ e.first # -1) \/ (S # {} /\ e.first \notin S) THEN "first" ELSE ""
        \* a lookup filtered on an attribute value that reads as a reference misses elements whose value the
        \* parser decoded twice: same defect as tree:attr_value:entity_double_decode
        cls == IF what = "" THEN "" ELSE IF e.filt /\ HasRefShape(e.av) /\ H \subseteq S THEN ":entity_double_decode" ELSE ""
    IN [ok |-> what = "",
        why |-> "path lookup returned " \o ToString(e.hits) \o " first " \o ToString(e.first) \o ", the matching elements are " \o ToString(S),
        sig |-> "find:" \o shape \o ":" \o what \o cls]

MonStep(m, e) ==
    IF e.e = "Parse" THEN ParseStep(m, e)
    ELSE IF e.e = "Find" /\ m.kind = "tree" THEN FindStep(m, e)
    ELSE [ok |-> TRUE, why |-> "", sig |-> ""]

\* ---- design conformance label -----------------------------------------------------------------------------
RECURSIVE FullEq(_, _)
FullEq(a, b) == /\ a.tag = b.tag /\ a.attrs = b.attrs /\ a.ht = b.ht /\ a.text = b.text /\ a.hd = b.hd /\ a.decl = b.decl
                /\ Len(a.kids) = Len(b.kids) /\ \A i \in 1..Len(a.kids) : FullEq(a.kids[i], b.kids[i])
ConfLabel(m, e) ==
    IF e.e = "Parse" /\ m.hasinp /\ e.out \in {"tree", "exc"} THEN
        LET mp == ModelParse(m.inp, XmlCodeDev) IN
        IF mp.out = e.out /\ (e.out = "exc" => mp.kind = e.kind) /\ (e.out = "tree" => FullEq(mp.tree, Conv(e.tree)))
        THEN "design_conform" ELSE "design_differs@" \o ToString(l)
    ELSE ""
Bump(b, k) == IF k = "" THEN b ELSE IF k \in DOMAIN b THEN [b EXCEPT ![k] = @ + 1] ELSE (k :> 1) @@ b

Init == l = 1 /\ ms = [kind |-> "none", want |-> NoTree, pre |-> <<>>, inp |-> <<>>, hasinp |-> FALSE]
        /\ fails = <<>> /\ nexec = 0 /\ labels = EmptyFn
Next ==
    \/ /\ l <= NLines
       /\ LET r == MonStep(ms, Ev) IN
          fails' = IF r.ok THEN fails ELSE Append(fails, [line |-> l, exec |-> nexec, why |-> r.why, sig |-> r.sig])
       /\ ms' = IF Ev.e = "Reset" THEN MsInit(Ev) ELSE ms
       /\ nexec' = IF Ev.e = "Reset" THEN nexec + 1 ELSE nexec
       /\ labels' = Bump(labels, ConfLabel(ms, Ev))
       /\ l' = l + 1
    \/ /\ l = NLines + 1
       /\ WriteVerdictL(l - 1, fails, nexec, labels)
       /\ l' = l + 1
       /\ UNCHANGED <<ms, fails, nexec, labels>>
=============================================================================
