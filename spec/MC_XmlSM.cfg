CONSTANTS
  MaxLen = 14
  MaxStack = 3
INIT SMInit
NEXT SMNext
INVARIANT Live
INVARIANT Nesting
INVARIANT Total
CONSTRAINT Bound
CONSTRAINT Edge
VIEW View
CHECK_DEADLOCK FALSE
