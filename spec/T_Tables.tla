------------------------------- MODULE T_Tables -------------------------------
(* Trace monitor for C12 (metadata lookup tables behave as exact maps; the insertable sorted set). *)
(* Every execution starts with a Reset line written by the driver from the schema XML              *)
(* (lib/schema.py) or from the history TLC enumerated; the lines after it are what the real code   *)
(* returned.                                                                                       *)
(*                                                                                                 *)
(*  Reset{kind:"ftab", tab, keys:[field numbers ascending], names:[..], rsz:[realm sizes]}         *)
(*     Scan{lo, hi, hits:[[key, fnum, name, rsz]..]}   every key lo..hi was looked up              *)
(*                                                     (find_be / _be.find_ptr); hits = the keys   *)
(*                                                     that returned an entry, with the entry       *)
(*     Lookup{tab:"be", hi, lo, hit, fnum, ent}        _be.find_ptr(hi * 65536 + lo)                *)
(*  Reset{kind:"stab", tab:"bme"|"rbme"|"rbe", keys:[strings], vals:[..]}                           *)
(*     Lookup{tab, key, hit, same, ent, pk, inside, fnum, fnum2}                                    *)
(*         bme  : find_bme(msgtype)        vals = message names;  pk = key of the table pair the    *)
(*                returned entry lies in, same = _bme.find_ptr agrees                               *)
(*         rbme : reverse_find_bme(name)   vals = msgtypes                                         *)
(*         rbe  : reverse_find_be(name), reverse_find_fnum(name) = fnum2;  vals = field numbers    *)
(*  Reset{kind:"traits", fields:[[fnum, mandatory, pos, group]..] ascending}   (-1: not compared)   *)
(*     Traits{made, size, hits:[[fnum, has, mandatory, pos, group]..]}   FieldTraits::has / get /   *)
(*         getPos / is_group for every fnum 0..65535; hits = those with any non-default answer     *)
(*         (has: 1 both has() variants, 2 only one of them, 0 none)                                *)
(*  Reset{kind:"set", variant, reserve, init:[[k, p]..]}                                           *)
(*     Ins{k, p, ok, pos, ..} Find{k, found, pos, cpos, mpos, ..} Clear{..}  each with sz0, cap0,  *)
(*         sz, cap, moved, contents:[[k, p]..], live.   pos = offset of the returned iterator in   *)
(*         the set's current array, -1 if it points elsewhere.                                     *)
(*                                                                                                 *)
(* Demanded (and nothing else): a hit exactly when the key is present, and the entry is that key's; *)
(* the set holds exactly the keys inserted since the last clear, ascending, each with the payload   *)
(* of its first insertion; insert reports "new" exactly for new keys and then returns an iterator   *)
(* to the inserted element; find reports exactly the present keys and returns their element (end()  *)
(* for the others).  Not demanded: the iterator of a refused insert, the insertion hint of a failed *)
(* find, capacities, allocation behaviour (labels only).                                            *)
EXTENDS Common, Tables

VARIABLES l, ms, fails, nexec, labels, nf
\* nf: bag of the rejection signatures seen so far in this trace file; the first MaxFails rejections of every
\* signature are written to the verdict with their line (a rejection of a *different* kind is always
\* recorded), all of them are counted in labels under "rejected:<sig>"
MaxFails == 25

EmptyFn == [x \in {} |-> 0]
NoState == [kind |-> "none"]
Ev == TraceLog[l]

Ok == [ok |-> TRUE, why |-> "", sig |-> ""]
Bad(why, sig) == [ok |-> FALSE, why |-> why, sig |-> sig]
First(rs) == LET bad == {i \in DOMAIN rs : ~rs[i].ok}
             IN IF bad = {} THEN Ok ELSE rs[CHOOSE i \in bad : \A j \in bad : i <= j]

IndexOf(seq, x) == CHOOSE i \in DOMAIN seq : seq[i] = x

\* ---- field tables ------------------------------------------------------------------------------
ScanStep(m, e) ==
    LET E == {k \in Elems(m.keys) : e.lo <= k /\ k <= e.hi}
        O == {e.hits[i][1] : i \in DOMAIN e.hits}
        pre == "ftab:" \o m.tab \o ":"
    IN First(<<
        IF E \ O # {} THEN Bad("a field that is in the schema was not found", pre \o "miss") ELSE Ok,
        IF O \ E # {} THEN Bad("an entry was returned for a key that is not in the schema", pre \o "false_hit") ELSE Ok,
        IF \E i \in DOMAIN e.hits : LET h == e.hits[i] IN
               h[1] \in E /\ LET j == IndexOf(m.keys, h[1]) IN ~(h[2] = h[1] /\ h[3] = m.names[j] /\ h[4] = m.rsz[j])
        THEN Bad("the entry returned is not the entry of the key", pre \o "wrong_entry") ELSE Ok
    >>)

WideStep(m, e) ==
    LET present == e.hi = 0 /\ Member(m.keys, e.lo)
        pre == "ftab:be_wide:"
    IN IF e.hit # present THEN Bad("hit/miss wrong for a 32-bit key", pre \o (IF e.hit THEN "false_hit" ELSE "miss"))
       ELSE IF e.hit /\ ~(e.fnum = e.lo /\ e.ent = m.names[IndexOf(m.keys, e.lo)]) THEN Bad("wrong entry", pre \o "wrong_entry")
       ELSE Ok

\* ---- string-keyed tables -----------------------------------------------------------------------
StrStep(m, e) ==
    LET present == e.key \in Elems(m.keys)
        val == m.vals[IndexOf(m.keys, e.key)]
        pre == "stab:" \o m.tab \o ":"
    IN IF e.hit # present THEN Bad("hit/miss wrong for a string key", pre \o (IF e.hit THEN "false_hit" ELSE "miss"))
       ELSE IF m.tab = "rbe" /\ e.fnum2 # (IF present THEN val ELSE 0) THEN Bad("reverse_find_fnum wrong", pre \o "fnum")
       ELSE IF ~e.hit THEN Ok
       ELSE IF m.tab = "bme" /\ ~(e.same /\ e.inside /\ e.pk = e.key /\ e.ent = val) THEN Bad("wrong message entry", pre \o "wrong_entry")
       ELSE IF m.tab = "rbme" /\ ~(e.inside /\ e.ent = e.key /\ e.pk = val) THEN Bad("wrong message entry", pre \o "wrong_entry")
       ELSE IF m.tab = "rbe" /\ ~(e.same /\ e.ent = e.key /\ e.fnum = val) THEN Bad("wrong field entry", pre \o "wrong_entry")
       ELSE Ok

\* ---- per-message field traits ------------------------------------------------------------------
TraitsStep(m, e) ==
    LET E == {m.fields[i][1] : i \in DOMAIN m.fields}
        O == {e.hits[i][1] : i \in DOMAIN e.hits}
        n == Len(m.fields)
        \* both lists ascend by field number, so once the key sets agree they correspond index by index
        aligned == Len(e.hits) = n /\ \A i \in 1..n : e.hits[i][1] = m.fields[i][1]
    IN IF ~e.made THEN Bad("message could not be created", "traits:not_made")
       ELSE First(<<
        IF E \ O # {} THEN Bad("a field of the message is not in its trait set", "traits:miss") ELSE Ok,
        IF O \ E # {} THEN Bad("the trait set answers for a field that is not in the message", "traits:false_hit") ELSE Ok,
        IF ~aligned THEN Bad("trait answers are not one per field", "traits:shape") ELSE Ok,
        IF aligned /\ \E i \in 1..n : e.hits[i][2] # 1 THEN Bad("the has() variants disagree", "traits:has") ELSE Ok,
        IF aligned /\ \E i \in 1..n : (m.fields[i][2] # -1 /\ e.hits[i][3] # m.fields[i][2]) \/ e.hits[i][5] # m.fields[i][4]
        THEN Bad("mandatory/group flag is not the field's", "traits:wrong_flags") ELSE Ok,
        \* positions: the numbering convention is the compiler's; demanded is that every field has a
        \* position and that positions order the fields as the schema lists them
        IF aligned /\ \E i \in 1..n : m.fields[i][3] # -1 /\ (e.hits[i][4] = 0 \/ \E j \in 1..n :
               m.fields[j][3] # -1 /\ (m.fields[i][3] < m.fields[j][3]) # (e.hits[i][4] < e.hits[j][4]))
        THEN Bad("positions do not order the fields as the schema does", "traits:wrong_pos") ELSE Ok,
        IF e.size # n THEN Bad("size of the trait set", "traits:size") ELSE Ok
    >>)

\* ---- the sorted set ----------------------------------------------------------------------------
\* abstract set: function key -> payload.  Its array image: ascending keys with their payloads.
AbsSeq(abs) == LET ks == SortedSeqOf(DOMAIN abs) IN [i \in DOMAIN ks |-> <<ks[i], abs[ks[i]]>>]
AbsPos(abs, k) == Cardinality({x \in DOMAIN abs : x < k})
PairsToFn(ps) == [x \in {ps[i][1] : i \in DOMAIN ps} |-> ps[CHOOSE i \in DOMAIN ps : ps[i][1] = x][2]]

SetStep(m, e) ==
    LET abs == m.abs
        pre == "set:" \o m.variant \o ":"
        abs2 == CASE e.e = "Ins" -> IF e.k \in DOMAIN abs THEN abs ELSE (e.k :> e.p) @@ abs
                  [] e.e = "Clear" -> EmptyFn
                  [] OTHER -> abs
        realloc == e.sz0 = e.cap0 /\ e.sz0 > 0
        r == First(<<
            IF e.e = "Ins" /\ (e.ok # (e.k \notin DOMAIN abs))
                THEN Bad("insert accepted a duplicate or refused a new key", pre \o "unexplained:ins_result") ELSE Ok,
            IF e.contents # AbsSeq(abs2) \/ e.sz # Cardinality(DOMAIN abs2)
                THEN Bad("contents are not the sorted set of the keys inserted",
                         pre \o "unexplained:contents_after_" \o e.e) ELSE Ok,
            IF e.e = "Ins" /\ e.ok /\ e.pos # AbsPos(abs2, e.k)
                THEN Bad("iterator returned by a successful insert does not point at the inserted element",
                         pre \o (IF e.pos = -1 /\ realloc /\ e.moved THEN "insert_realloc_returns_stale_iterator"
                                 ELSE "unexplained:ins_iterator")) ELSE Ok,
            IF e.e = "Find" /\ e.found # (e.k \in DOMAIN abs)
                THEN Bad("find reports a hit for an absent key or a miss for a present one", pre \o "unexplained:find_result") ELSE Ok,
            IF e.e = "Find" /\ e.k \in DOMAIN abs /\ ~(e.pos = AbsPos(abs, e.k) /\ e.cpos = e.pos /\ e.mpos = e.pos)
                THEN Bad("find does not return the element of the key", pre \o "unexplained:find_entry") ELSE Ok,
            IF e.e = "Find" /\ e.k \notin DOMAIN abs /\ ~(e.cpos = e.sz /\ e.mpos = e.sz)
                THEN Bad("find of an absent key does not return end()", pre \o "unexplained:find_end") ELSE Ok
        >>)
    IN [r |-> r, m |-> [m EXCEPT !.abs = abs2]]

\* design-conformance labels for set steps (never a verdict): which Insert branch of Tables.tla ran,
\* whether the capacity is what CalcReserve gives, whether more than one array is live
SetLabel(m, e) ==
    IF e.e = "Ins" THEN
        (IF ~e.ok THEN "ins_duplicate"
         ELSE IF e.sz0 = 0 THEN (IF e.live > 1 THEN "ins_first_dev_leak_on_empty_insert" ELSE "ins_first")
         ELSE IF e.sz0 < e.cap0 THEN "ins_inplace"
         ELSE IF e.cap = e.sz0 + CalcReserve(e.sz0, m.reserve, {}) THEN "ins_realloc" ELSE "ins_realloc_cap_other")
    ELSE IF e.e = "Find" THEN (IF e.found THEN "find_hit"
                               ELSE IF e.pos = AbsPos(m.abs, e.k) THEN "find_miss_hint_is_insert_location" ELSE "find_miss_hint_other")
    ELSE "clear"

\* ---- one monitor step --------------------------------------------------------------------------
MonStep(m, e) ==
    IF e.e = "Reset" THEN
        [r |-> Ok,
         m |-> CASE e.kind = "ftab" -> [kind |-> "ftab", tab |-> e.tab, keys |-> e.keys, names |-> e.names, rsz |-> e.rsz]
                 [] e.kind = "stab" -> [kind |-> "stab", tab |-> e.tab, keys |-> e.keys, vals |-> e.vals]
                 [] e.kind = "traits" -> [kind |-> "traits", fields |-> e.fields]
                 [] e.kind = "set" -> [kind |-> "set", variant |-> e.variant, reserve |-> e.reserve, abs |-> PairsToFn(e.init)]
                 [] OTHER -> NoState]
    ELSE IF m.kind = "ftab" /\ e.e = "Scan" THEN [r |-> ScanStep(m, e), m |-> m]
    ELSE IF m.kind = "ftab" /\ e.e = "Lookup" THEN [r |-> WideStep(m, e), m |-> m]
    ELSE IF m.kind = "stab" /\ e.e = "Lookup" THEN [r |-> StrStep(m, e), m |-> m]
    ELSE IF m.kind = "traits" /\ e.e = "Traits" THEN [r |-> TraitsStep(m, e), m |-> m]
    ELSE IF m.kind = "set" /\ e.e \in {"Ins", "Find", "Clear"} THEN SetStep(m, e)
    ELSE [r |-> Ok, m |-> m]

Label(m, e) == IF m.kind = "set" /\ e.e \in {"Ins", "Find", "Clear"} THEN SetLabel(m, e) ELSE ""
Bump(b, k) == IF k = "" THEN b ELSE IF k \in DOMAIN b THEN [b EXCEPT ![k] = @ + 1] ELSE (k :> 1) @@ b

Init == nf = EmptyFn /\ l = 1 /\ ms = NoState /\ fails = <<>> /\ nexec = 0 /\ labels = EmptyFn
Next ==
    \/ /\ l <= NLines
       /\ LET s == MonStep(ms, Ev) IN
          /\ ms' = s.m
          /\ fails' = IF s.r.ok \/ (s.r.sig \in DOMAIN nf /\ nf[s.r.sig] >= MaxFails) THEN fails
                      ELSE Append(fails, [line |-> l, exec |-> nexec, why |-> s.r.why, sig |-> s.r.sig])
          /\ nf' = IF s.r.ok THEN nf ELSE Bump(nf, s.r.sig)
          /\ labels' = Bump(Bump(labels, Label(ms, Ev)), IF s.r.ok THEN "" ELSE "rejected:" \o s.r.sig)
       /\ nexec' = IF Ev.e = "Reset" THEN nexec + 1 ELSE nexec
       /\ l' = l + 1
    \/ /\ l = NLines + 1
       /\ WriteVerdictL(l - 1, fails, nexec, labels)
       /\ l' = l + 1
       /\ UNCHANGED <<ms, fails, nexec, labels, nf>>
=============================================================================
