SPECIFICATION Spec
INVARIANT EstablishedOnlyByLogon
CHECK_DEADLOCK FALSE
